(* Props/C04.v -- property C04: decoding into header structs agrees with slicing.
   Statements only; proofs are `exact`.

   Models : Parse/HdrModel.v  (PacketHeaders::{from_ethernet_slice, from_ether_type,
                               from_ip_slice}, read_transport, IpHeaders::{from_slice,
                               from_ipv4_slice, from_ipv6_slice}, Ipv6Extensions::from_slice ...)
            Parse/Slices.v + Parse/Cursor.v (SlicedPacket, proved equal to the wire
                               formats under C03/C07)
   Views  : Parse/HdrView.v   (`hvres_of_h`: what an observer sees of a PacketHeaders
                               result; `hvres_of_s`: a slicing result converted with
                               to_header() + its innermost payload; `hagree`: equal
                               views / equal error records, never Bug)
   Exception : Parse/HdrCut.v (`refilled`: the documented rule "no free slot in the fixed
                               struct"; `Cut.from_* true`: the strict slicing algorithm
                               with the IPv6 extension walk ended in front of the first
                               refilled header, which becomes the payload's protocol)

   FULL STATEMENT, PROVED (C04_headers_eq_slices), for all byte strings bs and ether types et:
     bytes_ok bs ->
       hagree (PacketHeaders.from_ethernet_slice bs) (Cut.from_ethernet true bs)
    /\ hagree (PacketHeaders.from_ether_type et bs)  (Cut.from_ether_type true et bs)
    /\ (F11 bs = false -> hagree (PacketHeaders.from_ip_slice bs) (Cut.from_ip true bs))
    /\ (F11 bs = true -> all from_ip results are Err)
   together with C04_cut_is_slicing_* below (the cut variant IS SlicedPacket.from_* unless
   it stopped in front of a refilled extension header, and with cut = false always), where
   F11 bs := first nibble 4 and length < 20 (known finding F11: the error records differ,
   witness C04_from_ip_records_refuted).  C04_headers_eq_slices_or_exception combines the
   two: PacketHeaders = SlicedPacket, or the documented exception.
   C04_headers_never_bug: no unwrap / push on a full ArrayVec / pointer subtraction
   underflow / out-of-range index is reachable in the struct decoders.

   PROVED HERE:
     - C04_cut_false_* and C04_cut_is_slicing_*: the relation between the cut variant and
       the strict slicing model, for whole packets and all three entry points (full);
     - the per-layer agreement lemmas (names ending in _partial: they are the layers of
       the full theorem): transport (UDP length handling = F5, TCP header length, ICMP
       header/payload split, error fix-ups), IPv4 (+ authentication header, total length
       handling), the IPv6 extension chain in lockstep with the cut (with the invariant
       tying the struct's slots to `refilled`, the fragmentation flag, the summed header
       length and the pointer offset), IPv6 (payload length handling, chain, view of the
       network header);
     - C04_headers_eq_slices, C04_headers_eq_slices_or_exception, C04_headers_never_bug
       (Parse/HdrProofs3.v): the assembly over the link-extension loop (VLAN / MACsec, at
       most 3, induction on the remaining capacity; offsets by pointer difference against
       the cursor's running offset = F9), ARP, IpHeaders::from_slice (bare IP entry
       point) and the three entry points. *)
From EP Require Import Base.Bytes Parse.Types Parse.Slices Parse.Cursor Parse.View
  Parse.HdrModel Parse.HdrView Parse.HdrCut Parse.HdrProofs Parse.HdrProofs2 Parse.HdrProofs3
  Parse.LaxSlices Parse.LaxCursor Parse.LaxView Parse.HdrLaxModel Parse.HdrLaxView Parse.HdrLaxProofs.
Import SlicedPacketCursor.

(* ---- the cut variant and the strict slicing model ------------------------------ *)
Theorem C04_cut_false_from_ethernet : forall bs,
  Cut.from_ethernet false bs = SlicedPacket.from_ethernet bs.
Proof. exact cut_false_from_ethernet. Qed.
Print Assumptions C04_cut_false_from_ethernet.

Theorem C04_cut_false_from_ether_type : forall et bs,
  Cut.from_ether_type false et bs = SlicedPacket.from_ether_type et bs.
Proof. exact cut_false_from_ether_type. Qed.
Print Assumptions C04_cut_false_from_ether_type.

Theorem C04_cut_false_from_ip : forall bs, Cut.from_ip false bs = SlicedPacket.from_ip bs.
Proof. exact cut_false_from_ip. Qed.
Print Assumptions C04_cut_false_from_ip.

(* unless the cut result is "IPv6 whose payload is announced as an extension header"
   (stopped_at_ext), cutting changed nothing: same verdict, same error record, same
   layers, same payload *)
Theorem C04_cut_is_slicing_ethernet : forall bs,
  stopped_at_ext (Cut.from_ethernet true bs) = false ->
  (forall b, Cut.from_ethernet true bs <> Bug b) ->
  Cut.from_ethernet true bs = SlicedPacket.from_ethernet bs.
Proof. exact cut_only_when_stopped_ethernet. Qed.
Print Assumptions C04_cut_is_slicing_ethernet.

Theorem C04_cut_is_slicing_ether_type : forall et bs,
  stopped_at_ext (Cut.from_ether_type true et bs) = false ->
  (forall b, Cut.from_ether_type true et bs <> Bug b) ->
  Cut.from_ether_type true et bs = SlicedPacket.from_ether_type et bs.
Proof. exact cut_only_when_stopped_ether_type. Qed.
Print Assumptions C04_cut_is_slicing_ether_type.

Theorem C04_cut_is_slicing_ip : forall bs,
  stopped_at_ext (Cut.from_ip true bs) = false ->
  (forall b, Cut.from_ip true bs <> Bug b) ->
  Cut.from_ip true bs = SlicedPacket.from_ip bs.
Proof. exact cut_only_when_stopped_ip. Qed.
Print Assumptions C04_cut_is_slicing_ip.

(* ---- per-layer agreement: the layers of C04_headers_eq_slices (which is proved below in
   full; the suffix `_partial` of these names is historical, each statement is complete for
   its layer) ------ *)
(* transport: read_transport of the struct family against the cursor's transport
   dispatch, for ANY IP payload descriptor: same header window, same payload window
   (UDP length field honoured by both), same error after both families' fix-ups *)
Theorem C04_transport_agrees_partial : forall c p,
  c_src c = ipp_src p -> sp_transport (c_result c) = None ->
  tr_rel c p (read_transport p) (transport_dispatch c p).
Proof. exact transport_agree. Qed.
Print Assumptions C04_transport_agrees_partial.

(* IPv4 (+ authentication header): same header slices, same payload descriptor, same
   error record, for every slice *)
Theorem C04_ipv4_agrees_partial : forall s, bytes_ok (snd s) ->
  ip4_rel s (IpHeaders.from_ipv4_slice s) (Ipv4Slice.from_slice s).
Proof. exact v4_agree. Qed.
Print Assumptions C04_ipv4_agrees_partial.

(* the IPv6 extension loop of the struct decoder runs in lockstep with the slicing walk
   cut at the first refilled header: same rest, same next header, same error; the
   struct's slots mirror `refilled`, its summed length is the consumed byte count *)
Theorem C04_ipv6_chain_agrees_cut_partial : forall fuel base x rest nh fl fr,
  inv6 base x fl fr rest -> bytes_ok (snd rest) -> (N.to_nat (s_len rest) < fuel)%nat ->
  walk_rel base (Ipv6Extensions.loop fuel base x rest nh)
                (Cut.walk true fuel (s_len base) rest nh fr fl).
Proof. exact walk_agree. Qed.
Print Assumptions C04_ipv6_chain_agrees_cut_partial.

(* IPv6: same payload descriptor, same view of the network header (header window, first
   extension, fragmentation flag, window of the extension area), same error record *)
Theorem C04_ipv6_agrees_cut_partial : forall s, bytes_ok (snd s) ->
  ip6_rel s (IpHeaders.from_ipv6_slice s) (Cut.v6_from_slice true s).
Proof. exact v6_agree. Qed.
Print Assumptions C04_ipv6_agrees_cut_partial.

(* ---- the property: whole packets, all three entry points --------------------------- *)
(* F11 (decidable): the first byte announces IPv4 and the buffer is shorter than 20 bytes *)
Theorem C04_headers_eq_slices : forall bs et, bytes_ok bs ->
  hagree (PacketHeaders.from_ethernet_slice bs) (Cut.from_ethernet true bs) /\
  hagree (PacketHeaders.from_ether_type et bs) (Cut.from_ether_type true et bs) /\
  (F11 bs = false -> hagree (PacketHeaders.from_ip_slice bs) (Cut.from_ip true bs)) /\
  (F11 bs = true ->
     (exists e, PacketHeaders.from_ip_slice bs = Err e) /\ (exists e, Cut.from_ip true bs = Err e) /\
     (exists e, SlicedPacket.from_ip bs = Err e)).
Proof. exact hdr_eq_slices. Qed.
Print Assumptions C04_headers_eq_slices.

(* PacketHeaders = SlicedPacket (same verdict and error record, same layers with the same
   header windows, same payload window), or the documented exception: slicing cut at the
   first refilled IPv6 extension header stopped there, and PacketHeaders is that result *)
Theorem C04_headers_eq_slices_or_exception : forall bs et, bytes_ok bs ->
  (hagree (PacketHeaders.from_ethernet_slice bs) (SlicedPacket.from_ethernet bs) \/
   (stopped_at_ext (Cut.from_ethernet true bs) = true /\
    hagree (PacketHeaders.from_ethernet_slice bs) (Cut.from_ethernet true bs))) /\
  (hagree (PacketHeaders.from_ether_type et bs) (SlicedPacket.from_ether_type et bs) \/
   (stopped_at_ext (Cut.from_ether_type true et bs) = true /\
    hagree (PacketHeaders.from_ether_type et bs) (Cut.from_ether_type true et bs))) /\
  (F11 bs = false ->
   hagree (PacketHeaders.from_ip_slice bs) (SlicedPacket.from_ip bs) \/
   (stopped_at_ext (Cut.from_ip true bs) = true /\
    hagree (PacketHeaders.from_ip_slice bs) (Cut.from_ip true bs))).
Proof. exact hdr_eq_slices_or_exception. Qed.
Print Assumptions C04_headers_eq_slices_or_exception.

(* the struct decoders (and the observer view of their results) never return Bug: the
   unwraps in the to_header() conversions, push on the ArrayVec, the pointer offset
   subtraction and checked indexing cannot fail, for every byte string (F11 included) *)
Theorem C04_headers_never_bug : forall bs et b, bytes_ok bs ->
  (PacketHeaders.from_ethernet_slice bs <> Bug b /\
   PacketHeaders.from_ether_type et bs <> Bug b /\
   PacketHeaders.from_ip_slice bs <> Bug b) /\
  (hvres_of_h (PacketHeaders.from_ethernet_slice bs) <> HBug b /\
   hvres_of_h (PacketHeaders.from_ether_type et bs) <> HBug b /\
   hvres_of_h (PacketHeaders.from_ip_slice bs) <> HBug b).
Proof. exact (fun bs et b H => conj (hdr_never_bug_raw bs et b H) (hdr_never_bug bs et b H)). Qed.
Print Assumptions C04_headers_never_bug.

(* the hypotheses are satisfiable, on both sides of F11, behind VLAN + MACsec *)
Definition ex_vlan_macsec_arp : bytes :=
  [1;2;3;4;5;6; 7;8;9;10;11;12; 129;0;  0;5; 136;229;
   0;0; 0;0;0;1; 8;6;
   0;1;8;0;6;4;0;1; 1;2;3;4;5;6; 10;0;0;1; 0;0;0;0;0;0; 10;0;0;2].
Example C04_ex_assembly :
  bytes_ok ex_vlan_macsec_arp /\ F11 ex_vlan_macsec_arp = false /\ F11 [64] = true /\
  hvres_of_h (PacketHeaders.from_ethernet_slice ex_vlan_macsec_arp) =
    HOk (mkHv (Some (0, 14)) [HvVlan (14, 4); HvMacsec (18, 8)] (Some (HvArp (26, 28))) None HvpEmpty).
Proof.
  split; [apply bytes_okb_spec; vm_compute; reflexivity|].
  repeat split; vm_compute; reflexivity.
Qed.

(* ---- non-vacuity and witnesses (whole packets, by computation) ------------------ *)
(* Ethernet / VLAN / IPv4 / UDP with a UDP length (8) below the IP payload size (12):
   both families cut the payload to 0 bytes (F5 situation) *)
Definition ex_f5 : bytes :=
  [1;2;3;4;5;6; 7;8;9;10;11;12; 129;0;  0;5; 8;0;
   69;0;0;32; 0;0;0;0; 64;17;0;0; 1;2;3;4; 5;6;7;8;
   0;1;0;2;0;8;0;0; 170;187;204;221].
Example C04_ex_f5 :
  bytes_ok ex_f5 /\
  hvres_of_h (PacketHeaders.from_ethernet_slice ex_f5) =
    HOk (mkHv (Some (0, 14)) [HvVlan (14, 4)] (Some (HvIpv4 (18, 20) None))
              (Some (HvUdp (38, 8))) (HvpUdp (46, 0))) /\
  hagree (PacketHeaders.from_ethernet_slice ex_f5) (SlicedPacket.from_ethernet ex_f5).
Proof.
  split; [apply bytes_okb_spec; vm_compute; reflexivity|].
  split; [vm_compute; reflexivity|].
  split; [vm_compute; reflexivity|]. intros b. vm_compute. discriminate.
Qed.

(* the documented exception: IPv6, fragment header, second fragment header, UDP.
   Struct decoding stops in front of the second fragment header (no free slot) and
   reports it as the payload's protocol (44); this is exactly the cut slicing result,
   and it differs from the full slicing result, which goes on to the UDP header *)
Definition ex_dup : bytes :=
  [96;0;0;0; 0;24; 44;64] ++ repeat 0 32 ++
  [44;0;0;0;0;0;0;0] ++ [17;0;0;0;0;0;0;0] ++ [0;1;0;2;0;8;0;0].
Example C04_ex_exception :
  bytes_ok ex_dup /\
  hvres_of_h (PacketHeaders.from_ip_slice ex_dup) =
    HOk (mkHv None [] (Some (HvIpv6 (0, 40) (Some 44) false (40, 8))) None
              (HvpIp (mkVIp 44 false LsIpv6HeaderPayloadLen (48, 16)))) /\
  hagree (PacketHeaders.from_ip_slice ex_dup) (Cut.from_ip true ex_dup) /\
  stopped_at_ext (Cut.from_ip true ex_dup) = true /\
  hvres_of_s (SlicedPacket.from_ip ex_dup) =
    HOk (mkHv None [] (Some (HvIpv6 (0, 40) (Some 44) false (40, 16))) (Some (HvUdp (56, 8)))
              (HvpUdp (64, 0))).
Proof.
  split; [apply bytes_okb_spec; vm_compute; reflexivity|].
  split; [vm_compute; reflexivity|].
  split; [split; [vm_compute; reflexivity|intros b; vm_compute; discriminate]|].
  split; vm_compute; reflexivity.
Qed.

(* a fault behind the refilled header goes unnoticed by struct decoding: destination
   options, routing, destination options, destination options (no slot), then a
   hop-by-hop header that slicing rejects *)
Definition ex_dup_err : bytes :=
  [96;0;0;0; 0;40; 60;64] ++ repeat 0 32 ++
  [43;0;0;0;0;0;0;0] ++ [60;0;0;0;0;0;0;0] ++ [60;0;0;0;0;0;0;0] ++ [0;0;0;0;0;0;0;0] ++
  [59;0;0;0;0;0;0;0].
Example C04_ex_exception_fault_behind :
  hagree (PacketHeaders.from_ip_slice ex_dup_err) (Cut.from_ip true ex_dup_err) /\
  stopped_at_ext (Cut.from_ip true ex_dup_err) = true /\
  SlicedPacket.from_ip ex_dup_err = Err (EContent CeHopByHopNotAtStart).
Proof.
  split; [split; [vm_compute; reflexivity|intros b; vm_compute; discriminate]|].
  split; vm_compute; reflexivity.
Qed.

(* known finding F11 (not an instance of the documented exception): a first IPv4 header
   cut short at the bare-IP entry point is rejected by both families, with different
   error records *)
Theorem C04_from_ip_records_refuted :
  exists bs, bytes_ok bs /\
    hvres_of_h (PacketHeaders.from_ip_slice bs) = HErr (ELen (mkLenError 20 1 LsSlice LyIpv4Header 0)) /\
    hvres_of_s (SlicedPacket.from_ip bs) = HErr (EContent (CeIpIhl 0)).
Proof.
  exact (ex_intro _ [64]
    (conj (proj1 (bytes_okb_spec [64]) eq_refl) (conj eq_refl eq_refl))).
Qed.
Print Assumptions C04_from_ip_records_refuted.

(* ---- the lax families, per layer ------------------------------------------------------ *)
(* Model of LaxPacketHeaders: Parse/HdrLaxModel.v (from_ethernet, from_ether_type, from_ip,
   from_linux_sll, add_ip, the stop_err field; IpHeaders / Ipv6Extensions / Ipv4Extensions
   ::from_slice_lax), compared exactly with the implementation on every generated case.
   FULL STATEMENT, PROVED further down (block "extend-c04lax": C04_lax_headers_eq_slices +
   C04_lax_headers_eq_slices_strict + C04_lax_cut_is_slicing_* +
   C04_lax_headers_eq_slices_or_exception + C04_lax_headers_never_bug): for the three entry
   points and every byte string, the view of the LaxPacketHeaders result = the converted
   LaxSlicedPacket result (headers, payload window + incomplete flag, stop error and its layer)
   up to the record-level differences (C), (D) and the F11-like class, unless the documented
   exception.  The three theorems directly below are LAYERS of that theorem (transport layer,
   IPv4 layer, whole packets at the bare-IP entry point with a first nibble 4); their names
   still end in `_partial` because they were proved first, as are the `_partial` names of the
   strict pair above (C04_transport_agrees_partial, C04_ipv4_agrees_partial,
   C04_ipv6_chain_agrees_cut_partial, C04_ipv6_agrees_cut_partial): each is complete for its
   layer, and the whole-packet theorems C04_headers_eq_slices / C04_lax_headers_eq_slices
   compose them.  Not covered by a theorem: LaxPacketHeaders::from_linux_sll (implementation-
   side comparison only). *)

(* the "decode transport layer" block of LaxPacketHeaders::add_ip against
   LaxSlicedPacketCursor::slice_transport, for ANY lax IP payload descriptor: same header
   window, same payload window with the IP payload's incomplete flag, same stop error
   (layer, offset, length source) *)
Theorem C04_lax_transport_agrees_partial : forall self1 p c,
  LaxSlicedPacketCursor.has_stop (lc_result c) = false -> lsp_transport (lc_result c) = None ->
  ltr_rel self1 p c (LaxPacketHeaders.add_transport self1 p (lc_offset c))
                    (LaxSlicedPacketCursor.slice_transport c p).
Proof. exact lax_transport_agree. Qed.
Print Assumptions C04_lax_transport_agrees_partial.

(* the IPv4 arm of IpHeaders::from_slice_lax against the IPv4 arm of LaxIpSlice::from_slice
   (outside F11): same header and authentication header slices, same payload descriptor
   (three-way total-length fall-back, incomplete flag, length source), same stop error *)
Theorem C04_lax_ipv4_agrees_partial : forall s b0,
  bytes_ok (snd s) -> rd (snd s) 0 = Some b0 -> N.shiftr b0 4 = 4 -> 20 <= s_len s ->
  lip4_rel s (LaxIpHeaders.from_slice_lax s) (LaxIpSlice.from_slice s).
Proof. exact lax_ip4_agree. Qed.
Print Assumptions C04_lax_ipv4_agrees_partial.

(* whole packets, bare-IP entry point, first nibble 4 (outside F11): LaxPacketHeaders::from_ip
   and LaxSlicedPacket::from_ip reject with the same error, or give the same IPv4 header
   and authentication header slices, the same transport header window, the same payload
   window and incomplete flag, and the same stop error *)
Theorem C04_lax_from_ip4_agrees_partial : forall bs b0,
  bytes_ok bs -> rd bs 0 = Some b0 -> N.shiftr b0 4 = 4 -> 20 <= len bs ->
  lax_ip4_packet_rel (LaxPacketHeaders.from_ip bs) (LaxSlicedPacket.from_ip bs).
Proof. exact lax_from_ip4_agree. Qed.
Print Assumptions C04_lax_from_ip4_agrees_partial.

Example C04_ex_lax_ip4 :
  let bs := drop 18 ex_f5 in
  bytes_ok bs /\ rd bs 0 = Some 69 /\ N.shiftr 69 4 = 4 /\ 20 <= len bs /\
  lhvres_of_h (LaxPacketHeaders.from_ip bs) =
    LHOk (mkLHv None [] (Some (HvIpv4 (0, 20) None)) (Some (HvUdp (20, 8))) (LHvpUdp false (28, 0)) None).
Proof.
  cbv zeta. split; [apply bytes_okb_spec; vm_compute; reflexivity|].
  split; [vm_compute; reflexivity|]. split; [vm_compute; reflexivity|].
  split; [vm_compute; discriminate|]. vm_compute; reflexivity.
Qed.

(* the lax struct model on the F5 packet (UDP length 8 in a 12 byte IP payload) and on a
   packet cut inside the UDP header (stop error with offset and length source) *)
Example C04_ex_lax :
  lhvres_of_h (LaxPacketHeaders.from_ethernet ex_f5) =
    LHOk (mkLHv (Some (HvlEthernet2 (0, 14))) [HvVlan (14, 4)] (Some (HvIpv4 (18, 20) None))
                (Some (HvUdp (38, 8))) (LHvpUdp false (46, 0)) None) /\
  lhvres_of_h (LaxPacketHeaders.from_ethernet (take 42 ex_f5)) =
    LHOk (mkLHv (Some (HvlEthernet2 (0, 14))) [HvVlan (14, 4)] (Some (HvIpv4 (18, 20) None))
                None (LHvpIp (mkLVIp true 17 false LsSlice (38, 4)))
                (Some (ELen (mkLenError 8 4 LsSlice LyUdpHeader 38), LyUdpHeader))).
Proof. split; vm_compute; reflexivity. Qed.


(* ---- extend-c04lax ---- *)
(* The LAX half of C04, whole packets: LaxPacketHeaders against LaxSlicedPacket.

   Definitions (Parse/HdrLaxCut.v):
     LaxCut.from_* cut    the lax slicing algorithm (LaxSlices.v + LaxCursor.v, textual copy) whose
                          IPv6 extension walk, with cut = true, ends WITHOUT stop error in front of
                          the first header with `refilled` (the rule of HdrCut.v), which becomes the
                          payload's protocol number; cut = false is LaxSlicedPacket.from_*
     lconv                a LaxSlicedPacket converted with to_header() of every slice, its innermost
                          payload (transport payload with the IP payload's incomplete flag, else IP
                          payload, nothing behind ARP, else LaxSlicedPacket::ether_payload() /
                          the modified MACsec payload) and its stop error
     lhagree f11 h s      same verdict; Err: the same record; Ok: same link / link extension /
                          network / transport header windows, the struct family's payload is the
                          slicing family's with the carried-forward length source (`carry_src`,
                          observation (D)), stop errors related by `stop_rel f11`: same layer tag and
                          the same record, or the same record up to the struct family saying Slice
                          (`lerr_rel`, observation (C)), or -- only with f11 = true and on the tag
                          IpHeader -- an F11 pair (`f11_pair`: a first IPv4 header of which fewer
                          than 20 bytes are present; same layer, `len`, offset); neither side nor
                          its view is Bug
     lax_f11 h            the decidable F11-like class, read off the LaxPacketHeaders result: stop
                          error Len{required 20, len < 20, layer Ipv4Header} on the tag IpHeader
     lax_stopped_at_ext   the cut happened: IPv6 result without stop error whose payload is announced
                          as an extension header (impossible in an uncut lax result)

   FULL STATEMENT, PROVED: C04_lax_headers_eq_slices + C04_lax_headers_eq_slices_strict +
   C04_lax_cut_is_slicing_* (+ the combination C04_lax_headers_eq_slices_or_exception), for every
   byte string and every ether type; C04_lax_headers_never_bug.  Proofs: Parse/HdrLaxCutProofs.v,
   HdrLaxProofs2.v (extension chain in lockstep, IPv6 layer, IP dispatch, F11),
   HdrLaxProofs3.v (add_ip / slice_ip, ARP, link-extension loop by induction on the remaining
   capacity, entry points). *)
From EP Require Import Parse.HdrLaxCut Parse.HdrLaxCutProofs Parse.HdrLaxProofs2 Parse.HdrLaxProofs3.

(* ---- the cut variant of the lax slicing model and the lax slicing model ------------------ *)
Theorem C04_lax_cut_false_from_ethernet : forall bs,
  LaxCut.from_ethernet false bs = LaxSlicedPacket.from_ethernet bs.
Proof. exact lcut_false_from_ethernet. Qed.
Print Assumptions C04_lax_cut_false_from_ethernet.

Theorem C04_lax_cut_false_from_ether_type : forall et bs,
  LaxCut.from_ether_type false et bs = LaxSlicedPacket.from_ether_type et bs.
Proof. exact lcut_false_from_ether_type. Qed.
Print Assumptions C04_lax_cut_false_from_ether_type.

Theorem C04_lax_cut_false_from_ip : forall bs, LaxCut.from_ip false bs = LaxSlicedPacket.from_ip bs.
Proof. exact lcut_false_from_ip. Qed.
Print Assumptions C04_lax_cut_false_from_ip.

Theorem C04_lax_cut_is_slicing_ethernet : forall bs,
  lax_stopped_at_ext (LaxCut.from_ethernet true bs) = false ->
  (forall b, LaxCut.from_ethernet true bs <> Bug b) ->
  LaxCut.from_ethernet true bs = LaxSlicedPacket.from_ethernet bs.
Proof. exact lcut_only_when_stopped_ethernet. Qed.
Print Assumptions C04_lax_cut_is_slicing_ethernet.

Theorem C04_lax_cut_is_slicing_ether_type : forall et bs,
  lax_stopped_at_ext (LaxCut.from_ether_type true et bs) = false ->
  (forall b, LaxCut.from_ether_type true et bs <> Bug b) ->
  LaxCut.from_ether_type true et bs = LaxSlicedPacket.from_ether_type et bs.
Proof. exact lcut_only_when_stopped_ether_type. Qed.
Print Assumptions C04_lax_cut_is_slicing_ether_type.

Theorem C04_lax_cut_is_slicing_ip : forall bs,
  lax_stopped_at_ext (LaxCut.from_ip true bs) = false ->
  (forall b, LaxCut.from_ip true bs <> Bug b) ->
  LaxCut.from_ip true bs = LaxSlicedPacket.from_ip bs.
Proof. exact lcut_only_when_stopped_ip. Qed.
Print Assumptions C04_lax_cut_is_slicing_ip.

(* ---- layers of the whole-packet theorem ------------------------------------------------------ *)
(* Ipv6Extensions::from_slice_lax (struct loop) in lockstep with the cut walk of
   Ipv6ExtensionsSlice::from_slice_lax: same rest, same next header, the same stop error (record
   and layer tag); the struct's slots mirror `refilled` (invariant inv6 of the strict half) *)
Theorem C04_lax_ipv6_chain_agrees_cut : forall fuel base x rest nh fl fr,
  inv6 base x fl fr rest -> bytes_ok (snd rest) -> (N.to_nat (s_len rest) < fuel)%nat ->
  lwalk_rel base (LaxIpv6Extensions.loop fuel base x rest nh)
                 (LaxCut.walk true fuel (s_len base) rest nh fr fl).
Proof. exact lwalk_agree. Qed.
Print Assumptions C04_lax_ipv6_chain_agrees_cut.

(* IpHeaders::from_slice_lax against (cut) LaxIpSlice::from_slice, any first nibble, outside F11:
   same Err record, or the same payload descriptor (fall-backs, incomplete flag, length source),
   the same view of the network header and the same stop error *)
Theorem C04_lax_ip_headers_agree_cut : forall s, bytes_ok (snd s) ->
  (forall b0, rd (snd s) 0 = Some b0 -> N.shiftr b0 4 = 4 -> 20 <= s_len s) ->
  lipd_rel s (LaxIpHeaders.from_slice_lax s) (LaxCut.ip_from_slice true s).
Proof. exact lax_ip_agree. Qed.
Print Assumptions C04_lax_ip_headers_agree_cut.

(* ---- the property, lax pair: whole packets, all three entry points ------------------------------ *)
Theorem C04_lax_headers_eq_slices : forall bs et, bytes_ok bs ->
  lhagree true (LaxPacketHeaders.from_ethernet bs) (LaxCut.from_ethernet true bs) /\
  lhagree true (LaxPacketHeaders.from_ether_type et bs) (LaxCut.from_ether_type true et bs) /\
  (F11 bs = false -> lhagree true (LaxPacketHeaders.from_ip bs) (LaxCut.from_ip true bs)) /\
  (F11 bs = true ->
     exists e e', LaxPacketHeaders.from_ip bs = Err e /\ LaxCut.from_ip true bs = Err e' /\
       LaxSlicedPacket.from_ip bs = Err e' /\ f11_pair e e').
Proof. exact lax_hdr_eq_slices. Qed.
Print Assumptions C04_lax_headers_eq_slices.

(* outside the F11-like class the F11 clause of the stop error relation is not needed *)
Theorem C04_lax_headers_eq_slices_strict : forall h s,
  lhagree true h s -> lax_f11 h = false -> lhagree false h s.
Proof. exact lhagree_strict. Qed.
Print Assumptions C04_lax_headers_eq_slices_strict.

(* LaxPacketHeaders agrees with LaxSlicedPacket, or the documented exception: lax slicing cut at the
   first refilled IPv6 extension header stopped there, and LaxPacketHeaders agrees with that *)
Theorem C04_lax_headers_eq_slices_or_exception : forall bs et, bytes_ok bs ->
  (lhagree true (LaxPacketHeaders.from_ethernet bs) (LaxSlicedPacket.from_ethernet bs) \/
   (lax_stopped_at_ext (LaxCut.from_ethernet true bs) = true /\
    lhagree true (LaxPacketHeaders.from_ethernet bs) (LaxCut.from_ethernet true bs))) /\
  (lhagree true (LaxPacketHeaders.from_ether_type et bs) (LaxSlicedPacket.from_ether_type et bs) \/
   (lax_stopped_at_ext (LaxCut.from_ether_type true et bs) = true /\
    lhagree true (LaxPacketHeaders.from_ether_type et bs) (LaxCut.from_ether_type true et bs))) /\
  (F11 bs = false ->
   lhagree true (LaxPacketHeaders.from_ip bs) (LaxSlicedPacket.from_ip bs) \/
   (lax_stopped_at_ext (LaxCut.from_ip true bs) = true /\
    lhagree true (LaxPacketHeaders.from_ip bs) (LaxCut.from_ip true bs))).
Proof. exact lax_hdr_eq_slices_or_exception. Qed.
Print Assumptions C04_lax_headers_eq_slices_or_exception.

(* LaxPacketHeaders (and the observer view of its results) never returns Bug: to_header() unwraps,
   push on the ArrayVec, pointer subtraction in add_ip, checked indexing; F11 inputs included *)
Theorem C04_lax_headers_never_bug : forall bs et b, bytes_ok bs ->
  (LaxPacketHeaders.from_ethernet bs <> Bug b /\ LaxPacketHeaders.from_ether_type et bs <> Bug b /\
   LaxPacketHeaders.from_ip bs <> Bug b) /\
  (lhvres_of_h (LaxPacketHeaders.from_ethernet bs) <> LHBug b /\
   lhvres_of_h (LaxPacketHeaders.from_ether_type et bs) <> LHBug b /\
   lhvres_of_h (LaxPacketHeaders.from_ip bs) <> LHBug b).
Proof. exact lax_hdr_never_bug. Qed.
Print Assumptions C04_lax_headers_never_bug.

(* pin the meaning of the relation *)
Check (eq_refl : lhagree =
  fun f11 h s =>
    match h, s with
    | Ok p, Ok sp => exists v v', lhview_of p = Ok v /\ lconv sp = Ok v' /\ lhv_rel f11 sp v v'
    | Err e, Err e' => e = e'
    | _, _ => False
    end).
Check (eq_refl : lhv_rel =
  fun f11 sp v v' =>
    lhv_link v = lhv_link v' /\ lhv_exts v = lhv_exts v' /\ lhv_net v = lhv_net v' /\
    lhv_tr v = lhv_tr v' /\ lhv_payload v = carry_src sp (lhv_payload v') /\
    stop_rel f11 (lhv_stop v) (lhv_stop v')).
Check (eq_refl : stop_rel =
  fun f11 h s =>
    match h, s with
    | None, None => True
    | Some (eh, ly), Some (es, ly') =>
        ly = ly' /\
        (match eh, es with
         | ELen lh, ELen ls => lerr_rel lh ls
         | EContent c, EContent c' => c = c'
         | _, _ => False
         end \/ (f11 = true /\ ly = LyIpHeader /\ f11_pair eh es))
    | _, _ => False
    end).
Check (eq_refl : lerr_rel = fun h s => h = s \/ h = le_set_src s LsSlice).
Check (eq_refl : f11_pair =
  fun eh es =>
    exists n off, n < 20 /\ eh = ELen (mkLenError 20 n LsSlice LyIpv4Header off) /\
      ((exists i, i < 5 /\ es = EContent (CeIpIhl i)) \/
       (exists hl src, 20 <= hl /\ es = ELen (mkLenError hl n src LyIpv4Header off)))).

(* ---- non-vacuity / witnesses (by computation) --------------------------------------------------- *)
(* observation (C): Ethernet II, MACsec with short length (8 byte body), IPv6 header cut short:
   the stop error names the MACsec short length in LaxSlicedPacket and Slice in LaxPacketHeaders;
   everything else is equal *)
Definition ex_macsec_short_v6cut : bytes :=
  [1;2;3;4;5;6; 7;8;9;10;11;12; 136;229;
   0;10; 0;0;0;1; 134;221;
   96;0;0;0; 0;0;17;64;
   170;187;204;221].
Example C04_ex_lax_obs_C :
  bytes_ok ex_macsec_short_v6cut /\
  lhvres_of_h (LaxPacketHeaders.from_ethernet ex_macsec_short_v6cut) =
    LHOk (mkLHv (Some (HvlEthernet2 (0, 14))) [HvMacsec (14, 8)] None None
                (LHvpEther (mkLVEp false 34525 LsMacsecShortLength (22, 8)))
                (Some (ELen (mkLenError 40 8 LsSlice LyIpv6Header 22), LyIpHeader))) /\
  lhvres_of_s (LaxSlicedPacket.from_ethernet ex_macsec_short_v6cut) =
    LHOk (mkLHv (Some (HvlEthernet2 (0, 14))) [HvMacsec (14, 8)] None None
                (LHvpEther (mkLVEp false 34525 LsMacsecShortLength (22, 8)))
                (Some (ELen (mkLenError 40 8 LsMacsecShortLength LyIpv6Header 22), LyIpHeader))) /\
  lax_f11 (LaxPacketHeaders.from_ethernet ex_macsec_short_v6cut) = false.
Proof.
  split; [apply bytes_okb_spec; vm_compute; reflexivity|]. repeat split; vm_compute; reflexivity.
Qed.

(* observation (D): two MACsec headers, the first with a short length, the second without:
   LaxPacketHeaders carries MacsecShortLength forward into the ether payload,
   LaxSlicedPacket::ether_payload() says Slice *)
Definition ex_macsec2 : bytes :=
  [1;2;3;4;5;6; 7;8;9;10;11;12; 136;229;
   0;14; 0;0;0;1; 136;229;
   0;0; 0;0;0;2; 18;52;
   1;2;3;4;
   170;187].
Example C04_ex_lax_obs_D :
  bytes_ok ex_macsec2 /\
  lhvres_of_h (LaxPacketHeaders.from_ethernet ex_macsec2) =
    LHOk (mkLHv (Some (HvlEthernet2 (0, 14))) [HvMacsec (14, 8); HvMacsec (22, 8)] None None
                (LHvpEther (mkLVEp false 4660 LsMacsecShortLength (30, 4))) None) /\
  lhvres_of_s (LaxSlicedPacket.from_ethernet ex_macsec2) =
    LHOk (mkLHv (Some (HvlEthernet2 (0, 14))) [HvMacsec (14, 8); HvMacsec (22, 8)] None None
                (LHvpEther (mkLVEp false 4660 LsSlice (30, 4))) None).
Proof.
  split; [apply bytes_okb_spec; vm_compute; reflexivity|]. split; vm_compute; reflexivity.
Qed.

(* the documented exception in the lax pair (the packet of C04_ex_exception): LaxPacketHeaders stops
   in front of the second fragment header without stop error = lax slicing cut there; uncut lax
   slicing goes on to the UDP header *)
Example C04_ex_lax_exception :
  F11 ex_dup = false /\
  lax_stopped_at_ext (LaxCut.from_ip true ex_dup) = true /\
  lhvres_of_h (LaxPacketHeaders.from_ip ex_dup) = lhvres_of_s (LaxCut.from_ip true ex_dup) /\
  lhvres_of_h (LaxPacketHeaders.from_ip ex_dup) =
    LHOk (mkLHv None [] (Some (HvIpv6 (0, 40) (Some 44) false (40, 8))) None
                (LHvpIp (mkLVIp false 44 false LsIpv6HeaderPayloadLen (48, 16))) None) /\
  lhvres_of_s (LaxSlicedPacket.from_ip ex_dup) =
    LHOk (mkLHv None [] (Some (HvIpv6 (0, 40) (Some 44) false (40, 16))) (Some (HvUdp (56, 8)))
                (LHvpUdp false (64, 0)) None).
Proof. repeat split; vm_compute; reflexivity. Qed.

(* the F11-like class behind an ether type: 3 bytes of an IPv4 header announcing IHL 15 *)
Example C04_ex_lax_f11 :
  lax_f11 (LaxPacketHeaders.from_ether_type 2048 [79; 0; 0]) = true /\
  lhvres_of_h (LaxPacketHeaders.from_ether_type 2048 [79; 0; 0]) =
    LHOk (mkLHv None [] None None (LHvpEther (mkLVEp false 2048 LsSlice (0, 3)))
                (Some (ELen (mkLenError 20 3 LsSlice LyIpv4Header 0), LyIpHeader))) /\
  lhvres_of_s (LaxSlicedPacket.from_ether_type 2048 [79; 0; 0]) =
    LHOk (mkLHv None [] None None (LHvpEther (mkLVEp false 2048 LsSlice (0, 3)))
                (Some (ELen (mkLenError 60 3 LsSlice LyIpv4Header 0), LyIpHeader))) /\
  F11 [79; 0; 0] = true /\
  LaxPacketHeaders.from_ip [79; 0; 0] = Err (ELen (mkLenError 20 3 LsSlice LyIpv4Header 0)) /\
  LaxSlicedPacket.from_ip [79; 0; 0] = Err (ELen (mkLenError 60 3 LsSlice LyIpv4Header 0)).
Proof. repeat split; vm_compute; reflexivity. Qed.
(* ---- end extend-c04lax ---- *)

(* ---- audit1-c04 ---- *)
(* Audit round 1 follow-up: the SLOTS of the struct Ipv6Extensions, one by one.

   `hagree` observes the struct Ipv6Extensions as (first next-header, fragmentation flag, SUM of
   the slot lengths): which header sits in which slot is not part of C04_headers_eq_slices.
   C04_ipv6_slots_in_order closes that: for every byte string and each of the three entry points,
   if PacketHeaders.from_* returns an IPv6 network layer (header slice hd, struct x), then the cut
   slicing result is Ok with an IPv6 network layer v on the SAME header slice, and the list l of
   extension headers that iterating `v.extensions()` yields (Parse/Access.v, Ipv6ExtIterA.items =
   IntoIterator + Ipv6ExtensionSliceIter::next until None) satisfies

     slots_hold x l   no two headers of l belong to the same slot, and slot k of x holds the slice s
                      <-> (k, s) is in `keyed false l`, the chain labelled with the slot each header
                      belongs to by the rule of Ipv6Extensions::from_slice (kind -> slot;
                      destination options -> first slot before a routing header, final destination
                      options slot behind one).  Slices are (offset, bytes): same window AND same
                      content.  Every filled slot is one yielded header, every yielded header sits in
                      the slot of its kind, all other slots are None; the wire order is the order of l
                      (it is NOT a fixed order of the slots: fragment / authentication / routing
                      headers may come in any order, see C04_ex_slots)
     chain .. l ..    l are consecutive pieces of the extension area of v from its start to its end,
                      each piece a well-formed header of THE KIND ANNOUNCED IN FRONT OF IT (the IPv6
                      header's next_header for the first one, octet 0 of the previous header
                      afterwards), with the length its own bytes announce
     win_of ..        the extension area is the window of exts6_len x bytes directly behind the 40 byte
                      header (so the chain are consecutive windows from s_off hd + 40:
                      C04_ipv6_slots_windows)

   C04_ipv6_slots_determined: the struct is determined by the chain (a struct with the contents of
   two slots swapped does not satisfy slots_hold for the same l).  The cut slicing result is the
   slicing result unless it stopped in front of a refilled header (the C04_cut_is_slicing theorems); in that
   case l are the headers in front of the cut.  C04_ipv6_struct_holds_chain (struct side alone) and
   C04_ipv6_iter_yields_chain (iterator alone) are the two halves the proof composes.
   Proofs: Parse/HdrSlots.v, Parse/HdrSlots2.v.  The same statement for the lax pair
   (LaxPacketHeaders / LaxSlicedPacket): C04_lax_ipv6_slots_in_order, at the end of this file. *)
From EP Require Import Parse.Access Parse.AccessProofs Parse.HdrSlots Parse.HdrSlots2.

Theorem C04_ipv6_slots_in_order : forall bs et, bytes_ok bs ->
  slots_in_order (PacketHeaders.from_ethernet_slice bs) (Cut.from_ethernet true bs) /\
  slots_in_order (PacketHeaders.from_ether_type et bs) (Cut.from_ether_type true et bs) /\
  slots_in_order (PacketHeaders.from_ip_slice bs) (Cut.from_ip true bs).
Proof. exact hdr_slots_in_order. Qed.
Print Assumptions C04_ipv6_slots_in_order.

Check (eq_refl : slots_in_order =
  fun h s =>
    forall hp hd x, h = Ok hp -> h_net hp = Some (HnIp (IhV6 hd x)) ->
    exists sp v first l nh_end,
      s = Ok sp /\ sp_net sp = Some (NtIpv6 v) /\ v6_header v = hd /\
      Ipv6HeaderSlice.next_header hd = Ok first /\
      Ipv6ExtIterA.items (v6_exts v) = Ok l /\
      slots_hold x l /\
      chain (x6_slice (v6_exts v)) 0 first l (exts6_len x) nh_end /\
      win_of (x6_slice (v6_exts v)) = (s_off hd + 40, exts6_len x)).
Check (eq_refl : slots_hold =
  fun x l => NoDup (map fst (keyed false l)) /\
             forall k s, slot_get x k = Some s <-> In (k, s) (keyed false l)).
Check (fun routed it r => eq_refl :
  keyed routed (it :: r) = (item_slot routed it, ext_item_slice it) :: keyed (routed_after routed it) r).
Check (eq_refl : item_slot =
  fun routed it =>
    match it with
    | XHopByHop _ => SHbh | XRouting _ => SRoute | XFragment _ => SFrag
    | XDestinationOptions _ => if routed then SFdest else SDest
    | XAuthentication _ => SAuth
    end).
Check (eq_refl : routed_after = fun routed it => match it with XRouting _ => true | _ => routed end).
Check (eq_refl : slot_get =
  fun x k => match k with
             | SHbh => x_hbh x | SDest => x_dest x | SRoute => x_route x
             | SFdest => x_fdest x | SFrag => x_frag x | SAuth => x_auth x
             end).
Check (fun W k nh k' nh' => eq_refl : chain W k nh [] k' nh' = (k' = k /\ nh' = nh)).
Check (fun W k nh it r k' nh' => eq_refl :
  chain W k nh (it :: r) k' nh' =
  (item_kind it = nh /\ item_wf it /\
   subU W k (s_len (ext_item_slice it)) = Ok (ext_item_slice it) /\
   exists nx, rdU (ext_item_slice it) 0 = Ok nx /\
              chain W (k + s_len (ext_item_slice it)) nx r k' nh')).
Check (eq_refl : item_kind =
  fun it => match it with
            | XHopByHop _ => 0 | XRouting _ => 43 | XFragment _ => 44
            | XDestinationOptions _ => 60 | XAuthentication _ => 51
            end).

Theorem C04_ipv6_slots_determined : forall x x' l, slots_hold x l -> slots_hold x' l -> x = x'.
Proof. exact slots_hold_unique. Qed.
Print Assumptions C04_ipv6_slots_determined.

Theorem C04_ipv6_slots_windows : forall W l first k' nh',
  chain W 0 first l k' nh' -> wchain first (s_off W) l nh' (s_off W + k').
Proof. exact chain_windows. Qed.
Print Assumptions C04_ipv6_slots_windows.
Check (fun nh pos it r nh_end pos_end => eq_refl :
  wchain nh pos (it :: r) nh_end pos_end =
  (item_kind it = nh /\ s_off (ext_item_slice it) = pos /\ item_wf it /\
   exists nx, rdU (ext_item_slice it) 0 = Ok nx /\
              wchain nx (pos + s_len (ext_item_slice it)) r nh_end pos_end)).

Theorem C04_ipv6_struct_holds_chain : forall nh0 hp x nh' r,
  Ipv6Extensions.from_slice nh0 hp = Ok (x, nh', r) ->
  exists l k', slots_hold x l /\ chain hp 0 nh0 l k' nh' /\ k' <= s_len hp /\ r = at_off hp k'.
Proof. exact from_slice_slots. Qed.
Print Assumptions C04_ipv6_struct_holds_chain.

Theorem C04_ipv6_iter_yields_chain : forall I l k nh nh' fuel,
  chain I k nh l (s_len I) nh' -> k <= s_len I -> (length l < fuel)%nat ->
  Ipv6ExtIterA.collect fuel (mkExtIter nh (at_off I k)) = Ok l.
Proof. exact collect_chain. Qed.
Print Assumptions C04_ipv6_iter_yields_chain.

Definition ex_order : bytes :=
  [96;0;0;0; 0;52; 44;64] ++ repeat 0 32 ++
  [60;0;0;0;0;0;0;0] ++ [43;0;0;0;0;0;0;0] ++ [60;0;0;0;0;0;0;0] ++ [51;0;0;0;0;0;0;0] ++
  [17;1;0;0;0;0;0;0;0;0;0;0] ++ [0;1;0;2;0;8;0;0].
Definition slot_wins (x : exts6) : list (option window) :=
  map (fun k => option_map win_of (slot_get x k)) [SHbh; SDest; SRoute; SFdest; SFrag; SAuth].
Definition item_tag (it : ext_item) : N * window := (item_kind it, win_of (ext_item_slice it)).
Example C04_ex_slots :
  bytes_ok ex_order /\
  exists hp hd x sp v l,
    PacketHeaders.from_ip_slice ex_order = Ok hp /\ h_net hp = Some (HnIp (IhV6 hd x)) /\
    Cut.from_ip true ex_order = Ok sp /\ sp_net sp = Some (NtIpv6 v) /\
    Ipv6ExtIterA.items (v6_exts v) = Ok l /\
    map item_tag l = [(44, (40, 8)); (60, (48, 8)); (43, (56, 8)); (60, (64, 8)); (51, (72, 12))] /\
    slot_wins x = [None; Some (48, 8); Some (56, 8); Some (64, 8); Some (40, 8); Some (72, 12)] /\
    stopped_at_ext (Ok sp) = false.
Proof.
  split; [apply bytes_okb_spec; vm_compute; reflexivity|].
  do 6 eexists. split; [vm_compute; reflexivity|]. split; [reflexivity|].
  split; [vm_compute; reflexivity|]. split; [reflexivity|]. split; [vm_compute; reflexivity|].
  repeat split; vm_compute; reflexivity.
Qed.
Example C04_ex_slots_exception :
  exists hp hd x sp v l,
    PacketHeaders.from_ip_slice ex_dup = Ok hp /\ h_net hp = Some (HnIp (IhV6 hd x)) /\
    Cut.from_ip true ex_dup = Ok sp /\ sp_net sp = Some (NtIpv6 v) /\
    Ipv6ExtIterA.items (v6_exts v) = Ok l /\
    map item_tag l = [(44, (40, 8))] /\
    slot_wins x = [None; None; None; None; Some (40, 8); None] /\
    stopped_at_ext (Ok sp) = true.
Proof.
  do 6 eexists. split; [vm_compute; reflexivity|]. split; [reflexivity|].
  split; [vm_compute; reflexivity|]. split; [reflexivity|]. split; [vm_compute; reflexivity|].
  repeat split; vm_compute; reflexivity.
Qed.
(* ---- end audit1-c04 ---- *)

(* ---- audit1-c04 (lax pair) ---- *)
(* The same statement for the lax pair: LaxPacketHeaders against the cut LaxSlicedPacket result.
   A stop error ends the chain: the headers decoded in front of the fault stay in their slots and
   are exactly what the lax slicing result iterates to.  Proofs: Parse/HdrLaxSlots.v, HdrLaxSlots2.v
   (lockstep with the invariant lloop_inv of HdrLaxProofs3.v). *)
From EP Require Import Parse.HdrLaxSlots Parse.HdrLaxSlots2.

Theorem C04_lax_ipv6_slots_in_order : forall bs et, bytes_ok bs ->
  lax_slots_in_order (LaxPacketHeaders.from_ethernet bs) (LaxCut.from_ethernet true bs) /\
  lax_slots_in_order (LaxPacketHeaders.from_ether_type et bs) (LaxCut.from_ether_type true et bs) /\
  lax_slots_in_order (LaxPacketHeaders.from_ip bs) (LaxCut.from_ip true bs).
Proof. exact lax_hdr_slots_in_order. Qed.
Print Assumptions C04_lax_ipv6_slots_in_order.
Check (eq_refl : lax_slots_in_order =
  fun h s =>
    forall hp hd x, h = Ok hp -> lh_net hp = Some (HnIp (IhV6 hd x)) ->
    exists sp v first l nh_end,
      s = Ok sp /\ lsp_net sp = Some (LNtIpv6 v) /\ lv6_header v = hd /\
      Ipv6HeaderSlice.next_header hd = Ok first /\
      Ipv6ExtIterA.items (lv6_exts v) = Ok l /\
      slots_hold x l /\
      chain (x6_slice (lv6_exts v)) 0 first l (exts6_len x) nh_end /\
      win_of (x6_slice (lv6_exts v)) = (s_off hd + 40, exts6_len x)).

Theorem C04_lax_ipv6_struct_holds_chain : forall nh0 hp x nh' r st,
  LaxIpv6Extensions.from_slice_lax nh0 hp = Ok (x, nh', r, st) ->
  exists l k', slots_hold x l /\ chain hp 0 nh0 l k' nh' /\ k' <= s_len hp /\ r = at_off hp k'.
Proof. exact lax_from_slice_slots. Qed.
Print Assumptions C04_lax_ipv6_struct_holds_chain.

(* the packet of C04_ex_slots cut inside its authentication header: the lax struct keeps the four
   headers in front of the fault in their slots, the authentication slot stays empty, the stop error
   names the authentication header; the cut lax slicing result iterates to the same four headers *)
Example C04_ex_lax_slots :
  let bs := take 80 ex_order in
  exists hp hd x sp v l,
    LaxPacketHeaders.from_ip bs = Ok hp /\ lh_net hp = Some (HnIp (IhV6 hd x)) /\
    LaxCut.from_ip true bs = Ok sp /\ lsp_net sp = Some (LNtIpv6 v) /\
    Ipv6ExtIterA.items (lv6_exts v) = Ok l /\
    map item_tag l = [(44, (40, 8)); (60, (48, 8)); (43, (56, 8)); (60, (64, 8))] /\
    slot_wins x = [None; Some (48, 8); Some (56, 8); Some (64, 8); Some (40, 8); None] /\
    option_map snd (lh_stop hp) = Some LyIpAuthHeader.
Proof.
  cbv zeta. do 6 eexists. split; [vm_compute; reflexivity|]. split; [reflexivity|].
  split; [vm_compute; reflexivity|]. split; [reflexivity|]. split; [vm_compute; reflexivity|].
  repeat split; vm_compute; reflexivity.
Qed.
(* ---- end audit1-c04 (lax pair) ---- *)

(* ---- audit1-c04 (prefix) ---- *)
(* The headers in front of the cut are a prefix of what the UNCUT slicing result yields: whenever the
   cut run and SlicedPacket.from_* both return an IPv6 network layer, it is on the same IPv6 header
   slice, and iterating the extensions of the slicing result yields the items of the cut result
   followed by more (none when the cut did not happen).  With C04_ipv6_slots_in_order: the struct's
   slots hold, in wire order, the first extension headers that `SlicedPacket::from_*` yields, up to
   the cut point.  (When the uncut walk fails behind the cut there is no slicing result to compare
   with: C04_ex_exception_fault_behind.)  Proof: Parse/HdrSlots3.v. *)
From EP Require Import Parse.HdrSlots3.
Theorem C04_cut_items_prefix_of_slicing : forall bs et,
  cut_items_prefix (Cut.from_ethernet true bs) (SlicedPacket.from_ethernet bs) /\
  cut_items_prefix (Cut.from_ether_type true et bs) (SlicedPacket.from_ether_type et bs) /\
  cut_items_prefix (Cut.from_ip true bs) (SlicedPacket.from_ip bs).
Proof. exact cut_prefix_of_slicing. Qed.
Print Assumptions C04_cut_items_prefix_of_slicing.
Check (eq_refl : cut_items_prefix =
  fun a b =>
    forall sp v sp', a = Ok sp -> sp_net sp = Some (NtIpv6 v) -> b = Ok sp' ->
    exists v', sp_net sp' = Some (NtIpv6 v') /\ v6_header v' = v6_header v /\
      forall l l2, Ipv6ExtIterA.items (v6_exts v) = Ok l -> Ipv6ExtIterA.items (v6_exts v') = Ok l2 ->
                   exists l', l2 = l ++ l').
(* the packet of C04_ex_exception: one fragment header in front of the cut, two in the slicing result *)
Example C04_ex_prefix :
  exists sp v sp' v' l l2,
    Cut.from_ip true ex_dup = Ok sp /\ sp_net sp = Some (NtIpv6 v) /\
    SlicedPacket.from_ip ex_dup = Ok sp' /\ sp_net sp' = Some (NtIpv6 v') /\
    Ipv6ExtIterA.items (v6_exts v) = Ok l /\ Ipv6ExtIterA.items (v6_exts v') = Ok l2 /\
    map item_tag l = [(44, (40, 8))] /\ map item_tag l2 = [(44, (40, 8)); (44, (48, 8))].
Proof.
  do 6 eexists. split; [vm_compute; reflexivity|]. split; [reflexivity|].
  split; [vm_compute; reflexivity|]. split; [reflexivity|].
  split; [vm_compute; reflexivity|]. split; [vm_compute; reflexivity|].
  split; vm_compute; reflexivity.
Qed.
(* ---- end audit1-c04 (prefix) ---- *)

(* ==== round3 c04val begin ==== *)
(* Audit round 3, item "header VALUE equality" (the property text says "returns the same link,
   link-extension, network and transport HEADERS as converting the slicing result"; hagree compares
   the header WINDOWS).

   C04_header_slices_hold_input: every slice stored in a PacketHeaders model result -- Ethernet II
   header, each VLAN / MACsec header, IPv4 header + authentication header, IPv6 header + each of the
   six extension slots, ARP packet, transport header (incl. the ICMPv4 8/20 byte header), payload --
   lies inside the input and holds the bytes of the input at its position (`in_win`); no hypothesis
   on the bytes.  (Both families model a decoded struct as the slice it was decoded from; this
   theorem is what makes "same window" mean "same bytes".)

   C04_header_values_eq_slices: whenever PacketHeaders.from_* and the cut slicing result are both
   Ok (they are Ok together: C04_headers_eq_slices), the VALUES agree header by header:
   `hvals_of_h` = to_header() / to_packet() / header() (accessor models of Parse/Access.v:
   Ethernet2A, SingleVlanA, MacsecHeaderA, Ipv4HeaderA, IpAuthHeaderA, Ipv6HeaderA,
   ArpPacketA.to_packet, UdpA, TcpHeaderSliceA, Icmpv4A.header, Icmpv6A.header) of the struct-side
   slice; `hvals_of_s` = the same conversions of the slices of the slicing result, as
   SlicedPacket -> to_header() does (Ethernet2Slice / SingleVlanSlice / MacsecSlice.header /
   Ipv4Slice.header + extensions.auth / Ipv6Slice.header / ArpPacketSlice / UdpSlice /
   TcpSlice::to_header (header_len, slice) / Icmpv4Slice / Icmpv6Slice).  Equality of `res` values:
   both sides are the same Ok value (or would fail alike).  The struct Ipv6Extensions is the
   subject of C04_ipv6_exts_to_header below.  Proofs: Parse/HdrVal.v (definitions),
   HdrValStruct.v, HdrValProofs.v; only existing models are composed. *)
From EP Require Import Parse.HdrVal Parse.HdrValStruct Parse.HdrValProofs.

Theorem C04_header_slices_hold_input : forall bs et,
  slices_hold bs (PacketHeaders.from_ethernet_slice bs) /\
  slices_hold bs (PacketHeaders.from_ether_type et bs) /\
  slices_hold bs (PacketHeaders.from_ip_slice bs).
Proof. exact hdr_slices_hold. Qed.
Print Assumptions C04_header_slices_hold_input.
Check (eq_refl : slices_hold =
  fun bs h => forall hp, h = Ok hp -> Forall (in_win bs) (hp_slices hp)).
Check (eq_refl : in_win =
  fun bs s => s_off s + s_len s <= len bs /\ snd s = take (s_len s) (drop (s_off s) bs)).
Check (eq_refl : hp_slices = fun p => hp_header_slices p ++ hpayload_slices (h_payload p)).
Check (eq_refl : hp_header_slices =
  fun p => olist (h_link p) ++ map hext_slice (h_exts p) ++
           match h_net p with Some n => hnet_slices n | None => [] end ++
           olist (option_map htr_slice (h_transport p))).
Check (eq_refl : hnet_slices =
  fun n => match n with
           | HnArp a => [a]
           | HnIp (IhV4 h a) => h :: olist a
           | HnIp (IhV6 h x) => h :: exts6_slices x
           end).
Check (eq_refl : exts6_slices =
  fun x => olist (x_hbh x) ++ olist (x_dest x) ++ olist (x_route x) ++ olist (x_fdest x) ++
           olist (x_frag x) ++ olist (x_auth x)).

Theorem C04_header_values_eq_slices : forall bs et, bytes_ok bs ->
  vals_agree (PacketHeaders.from_ethernet_slice bs) (Cut.from_ethernet true bs) /\
  vals_agree (PacketHeaders.from_ether_type et bs) (Cut.from_ether_type true et bs) /\
  vals_agree (PacketHeaders.from_ip_slice bs) (Cut.from_ip true bs).
Proof. exact hdr_vals_eq. Qed.
Print Assumptions C04_header_values_eq_slices.
Check (eq_refl : vals_agree =
  fun h s => forall hp sp, h = Ok hp -> s = Ok sp -> hvals_of_h hp = hvals_of_s sp).
Check (eq_refl : hvals_of_h =
  fun p => mkVals (option_map (fun h => Ethernet2A.to_header (mkEth2 0 h)) (h_link p))
                  (map hval_ext (h_exts p)) (option_map hval_net (h_net p))
                  (option_map hval_tr (h_transport p))).
Check (eq_refl : hvals_of_s =
  fun p => mkVals (match sp_link p with Some l => sval_link l | None => None end)
                  (map sval_ext (sp_exts p)) (option_map sval_net (sp_net p))
                  (option_map sval_tr (sp_transport p))).
Check (eq_refl : hval_tr =
  fun t => match t with
           | HtUdp h => TvUdp (UdpA.to_header h)
           | HtTcp h => TvTcp (TcpHeaderSliceA.to_header h)
           | HtIcmpv4 h => TvIcmpv4 (Icmpv4A.header h)
           | HtIcmpv6 h => TvIcmpv6 (Icmpv6A.header h)
           end).
Check (eq_refl : sval_tr =
  fun t => match t with
           | TrUdp s => TvUdp (UdpA.to_header s)
           | TrTcp hl s => TvTcp (TcpSliceA.to_header (hl, s))
           | TrIcmpv4 s => TvIcmpv4 (Icmpv4A.header s)
           | TrIcmpv6 s => TvIcmpv6 (Icmpv6A.header s)
           end).

(* non-vacuity: the F5 packet (Ethernet / VLAN / IPv4 / UDP): both results exist, the slices of
   the struct result are the windows 0+14, 14+4, 18+20, 38+8, 46+0, and the values are the decoded
   fields (addresses, ether types 0x8100 / 0x0800, VLAN id 5, TTL 64, protocol 17, ports 1 -> 2) *)
Example C04_ex_values :
  bytes_ok ex_f5 /\
  exists hp sp,
    PacketHeaders.from_ethernet_slice ex_f5 = Ok hp /\ Cut.from_ethernet true ex_f5 = Ok sp /\
    map win_of (hp_slices hp) = [(0, 14); (14, 4); (18, 20); (38, 8); (46, 0)] /\
    hvals_of_s sp =
      mkVals (Some (Ok ([7;8;9;10;11;12], [1;2;3;4;5;6], 33024)))
             [EvVlan (Ok (0, false, 5, 2048))]
             (Some (NvIpv4 (Ok (0, 0, 32, 0, false, false, 0, 64, 17, 0, [1;2;3;4], [5;6;7;8], [])) None))
             (Some (TvUdp (Ok (1, 2, 8, 0)))).
Proof.
  split; [apply bytes_okb_spec; vm_compute; reflexivity|].
  do 2 eexists. split; [vm_compute; reflexivity|]. split; [vm_compute; reflexivity|].
  split; vm_compute; reflexivity.
Qed.

(* The struct Ipv6Extensions.  SlicedPacket -> to_header() converts an Ipv6Slice with
   `IpSlice::to_header`, which re-decodes the stored extension area with the struct decoder
   Ipv6Extensions::from_slice and expects Ok (model: IpSliceToHeaderA.v6_exts_to_header,
   Parse/LaxAccess.v; C01/C02 prove it never fails on a strict Ipv6Slice).
   C04_ipv6_exts_to_header: whenever PacketHeaders.from_* returns an IPv6 network layer (header
   slice hd, struct x), the cut slicing result is Ok with an IPv6 layer v on the same header slice
   and `v6_exts_to_header v = Ok x`: the conversion of the slicing result IS the struct that
   struct decoding returned -- all six slots, as slices (same windows, same bytes), hence the same
   to_header() values slot by slot (`exts6_val`).  With C04_header_values_eq_slices this is header
   VALUE equality for every header of the two strict families, all three entry points.
   Proof: Parse/HdrValExts.v. *)
From EP Require Import Parse.LaxAccess Parse.HdrValExts.

Theorem C04_ipv6_exts_to_header : forall bs et, bytes_ok bs ->
  exts_to_header_agree (PacketHeaders.from_ethernet_slice bs) (Cut.from_ethernet true bs) /\
  exts_to_header_agree (PacketHeaders.from_ether_type et bs) (Cut.from_ether_type true et bs) /\
  exts_to_header_agree (PacketHeaders.from_ip_slice bs) (Cut.from_ip true bs).
Proof. exact hdr_exts_to_header. Qed.
Print Assumptions C04_ipv6_exts_to_header.
Check (eq_refl : exts_to_header_agree =
  fun h s =>
    forall hp hd x, h = Ok hp -> h_net hp = Some (HnIp (IhV6 hd x)) ->
    exists sp v, s = Ok sp /\ sp_net sp = Some (NtIpv6 v) /\ v6_header v = hd /\
                 IpSliceToHeaderA.v6_exts_to_header v = Ok x).

(* the struct decoder on a prefix of its input that contains everything it consumed *)
Theorem C04_ipv6_struct_decoder_prefix : forall nh0 hp x nh' r u I,
  Ipv6Extensions.from_slice nh0 hp = Ok (x, nh', r) -> pre u I hp -> s_len hp - s_len r <= u ->
  exists rI, Ipv6Extensions.from_slice nh0 I = Ok (x, nh', rI).
Proof. exact struct_exts_pre. Qed.
Print Assumptions C04_ipv6_struct_decoder_prefix.

(* non-vacuity: the packets of C04_ex_slots (five extension headers, all slots but hop-by-hop
   filled) and of C04_ex_exception (stopped in front of a second fragment header) *)
Example C04_ex_exts_to_header :
  (exists hp hd x sp v,
     PacketHeaders.from_ip_slice ex_order = Ok hp /\ h_net hp = Some (HnIp (IhV6 hd x)) /\
     Cut.from_ip true ex_order = Ok sp /\ sp_net sp = Some (NtIpv6 v) /\
     IpSliceToHeaderA.v6_exts_to_header v = Ok x /\
     slot_wins x = [None; Some (48, 8); Some (56, 8); Some (64, 8); Some (40, 8); Some (72, 12)] /\
     xv_frag (exts6_val x) = Some (Ok (60, 0, false, 0))) /\
  (exists hp hd x sp v,
     PacketHeaders.from_ip_slice ex_dup = Ok hp /\ h_net hp = Some (HnIp (IhV6 hd x)) /\
     Cut.from_ip true ex_dup = Ok sp /\ sp_net sp = Some (NtIpv6 v) /\
     stopped_at_ext (Ok sp) = true /\
     IpSliceToHeaderA.v6_exts_to_header v = Ok x /\
     slot_wins x = [None; None; None; None; Some (40, 8); None]).
Proof.
  split; do 5 eexists.
  - split; [vm_compute; reflexivity|]. split; [reflexivity|]. split; [vm_compute; reflexivity|].
    split; [reflexivity|]. split; [vm_compute; reflexivity|]. split; vm_compute; reflexivity.
  - split; [vm_compute; reflexivity|]. split; [reflexivity|]. split; [vm_compute; reflexivity|].
    split; [reflexivity|]. split; [vm_compute; reflexivity|]. split; vm_compute; reflexivity.
Qed.
(* ==== round3 c04val end ==== *)
