(* Props/C11.v -- placeholder while the proofs are being built *)
From EP Require Import Base.Bytes Defrag.Spec Defrag.Model.
Theorem C11_stub : True. Proof. exact I. Qed.
Print Assumptions C11_stub.
