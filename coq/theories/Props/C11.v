(* Props/C11.v -- property C11: fragments reassemble to the original payload in
   any arrival order.  Only statements; every proof is `exact <lemma>`.
   Spec = Defrag/Spec.v (reassembly as a partial map offset -> byte + optional
   end), Model = Defrag/Model.v (IpFragRange, IpDefragBuf, IpDefragPool). *)
From EP Require Import Base.Bytes Defrag.Spec Defrag.Model Defrag.Proofs.
Local Open Scope N_scope.

(* ---- the invariant of IpDefragBuf: sections well formed, pairwise neither
   overlapping nor touching; a byte of `data` is written (Some) exactly when a
   section covers it; every section ends within `data`, `data` is empty or ends
   where the last section ends, and has exactly the announced length once the
   final fragment was seen (with the repair of F8 no section can lie beyond the
   end any more); u16 bounds.  Established by new, kept by every successful add,
   and (model_step) an erroneous add leaves the buffer as it was: every history. ---- *)
Theorem C11_inv_new : forall ipn d s, Inv (buf_new ipn d s).
Proof. exact Inv_new. Qed.
Print Assumptions C11_inv_new.

Theorem C11_inv_add : forall b f b', Inv b -> add b f = AddOk b' -> Inv b'.
Proof. exact add_preserves_Inv. Qed.
Print Assumptions C11_inv_add.

Theorem C11_inv_reachable : forall h b, Inv b -> Inv (model_run b h).
Proof. exact model_run_Inv. Qed.
Print Assumptions C11_inv_reachable.

(* the slice `data[off..off+len]` and the unsafe `set_len(end)` are always in range *)
Theorem C11_no_panic : forall b f, add b f <> AddPanic.
Proof. exact add_never_panics. Qed.
Print Assumptions C11_no_panic.

(* ---- refinement: the buffer answers every delivery of EVERY history exactly
   like the Spec (verdict with all error fields, completeness, payload).  Before
   the repair of F8 this held only outside a known class. ---- *)
Theorem C11_refines : forall h ipn d s,
  model_trace (buf_new ipn d s) h = spec_trace spec_new h.
Proof. exact refines. Qed.
Print Assumptions C11_refines.

(* ---- any order: P any payload up to 65535 bytes, h any delivery list made of
   fragments of P (any cut at multiples of 8, any overlapping re-cut, any
   permutation, any duplicates); every prefix of such a list is such a list,
   so "complete exactly from the first delivery on that completes the cover,
   never before" is the first conjunct applied to the prefixes of h ---- *)
Theorem C11_any_order : forall P h ipn d0 s0, len P <= 65535 -> Forall (frag_of P) h ->
  let b := model_run (buf_new ipn d0 s0) h in
  (is_complete b = true <-> Covered P h) /\
  (is_complete b = true -> b_data b = map Some P) /\
  Forall (fun o : obs => fst (fst o) = VOk) (model_trace (buf_new ipn d0 s0) h).
Proof. exact any_order. Qed.
Print Assumptions C11_any_order.

Theorem C11_any_order_prefix : forall P h k ipn d0 s0, len P <= 65535 -> Forall (frag_of P) h ->
  let b := model_run (buf_new ipn d0 s0) (firstn k h) in
  (is_complete b = true <-> Covered P (firstn k h)) /\
  (is_complete b = true -> b_data b = map Some P).
Proof. exact any_order_prefix. Qed.
Print Assumptions C11_any_order_prefix.

(* the same for an explicit cut: sizes = lengths of the non-final fragments in
   units of 8 bytes; delivering any list over the fragments of the cut *)
Theorem C11_cut_any_order : forall P sizes h ipn d0 s0, len P <= 65535 -> sumN sizes * 8 <= len P ->
  (forall f, In f h -> In f (cut_at P 0 sizes)) ->
  let b := model_run (buf_new ipn d0 s0) h in
  (is_complete b = true <-> Covered P h) /\
  (is_complete b = true -> b_data b = map Some P) /\
  ((forall f, In f (cut_at P 0 sizes) -> In f h) -> is_complete b = true).
Proof. exact cut_any_order. Qed.
Print Assumptions C11_cut_any_order.

(* ---- no leak: a completed buffer holds no byte that this datagram did not
   write -- every history ---- *)
Theorem C11_no_leak : forall h ipn d s,
  let b := model_run (buf_new ipn d s) h in
  is_complete b = true -> no_None (b_data b).
Proof. exact no_leak. Qed.
Print Assumptions C11_no_leak.

(* ---- rejects: the documented error, buffer unchanged ---- *)
Theorem C11_reject_toobig : forall b f, 65535 < f_endp f ->
  model_step b f = (VTooBig (f_fo f) (len (f_data f)), b).
Proof. exact reject_toobig. Qed.
Print Assumptions C11_reject_toobig.

Theorem C11_reject_unaligned : forall b f,
  f_endp f <= 65535 -> f_mf f = true -> len (f_data f) mod 8 <> 0 ->
  model_step b f = (VUnaligned (f_fo f) (len (f_data f)), b).
Proof. exact reject_unaligned. Qed.
Print Assumptions C11_reject_unaligned.

Theorem C11_reject_conflict : forall b f prev,
  f_endp f <= 65535 -> (f_mf f = true -> len (f_data f) mod 8 = 0) ->
  b_end b = Some prev -> (prev < f_endp f \/ (f_mf f = false /\ f_endp f <> prev)) ->
  model_step b f = (VConflict prev (f_endp f), b).
Proof. exact reject_conflict. Qed.
Print Assumptions C11_reject_conflict.

(* the reject added by the repair of F8: the total length is not known yet and a
   final fragment ends below the largest section end r (= the largest offset
   received): ConflictingEnd{previous_end: r.end, conflicting_end}, buffer unchanged *)
Theorem C11_reject_late_end : forall b f r,
  f_endp f <= 65535 -> b_end b = None -> f_mf f = false ->
  In r (b_sections b) -> (forall r', In r' (b_sections b) -> r_end r' <= r_end r) ->
  f_endp f < r_end r ->
  model_step b f = (VConflict (r_end r) (f_endp f), b).
Proof. exact reject_late_end. Qed.
Print Assumptions C11_reject_late_end.

(* nothing else is rejected *)
Theorem C11_accept : forall b f, accepts b f -> exists b', model_step b f = (VOk, b').
Proof. exact accept_ok. Qed.
Print Assumptions C11_accept.

(* two consequences of the invariant for the repaired add: while the total length
   is unknown the largest section end is the data length (the new check could
   equally compare with data.len()), and an accepted final fragment never
   shortens the data (the closing set_len(end) is a no-op) *)
Theorem C11_section_max_is_data_len : forall b, Inv b -> b_end b = None ->
  match sec_max (b_sections b) with
  | Some m => m = len (b_data b)
  | None => len (b_data b) = 0
  end.
Proof. exact sec_max_is_len. Qed.
Print Assumptions C11_section_max_is_data_len.

Theorem C11_final_set_len_noop : forall b f, Inv b -> accepts b f -> f_mf f = false ->
  len (written b f) = f_endp f /\ take (f_endp f) (written b f) = written b f.
Proof. exact final_set_len_noop. Qed.
Print Assumptions C11_final_set_len_noop.

(* ---- order independence of the verdict (what F8 violated) ----
   Every delivery of h is answered Ok exactly when h is a consistent set of
   fragments (each acceptable on its own; every final fragment ends at or beyond
   the end of every fragment) -- a condition on the SET of fragments.  Hence for
   any two orders of the same deliveries: both are accepted completely or both
   contain a reject; and when accepted, the buffer is complete in both or in
   neither (exactly when the set covers [0, end)).  Which delivery of an
   inconsistent set is the rejected one necessarily depends on the order
   (whatever arrives first is kept). *)
Theorem C11_all_ok_iff_consistent : forall h ipn d s,
  Forall okobs (model_trace (buf_new ipn d s) h) <-> consistent h.
Proof. exact all_ok_iff. Qed.
Print Assumptions C11_all_ok_iff_consistent.

Theorem C11_order_independent : forall h1 h2 ipn d s, Permutation.Permutation h1 h2 ->
  (Forall okobs (model_trace (buf_new ipn d s) h1) <-> Forall okobs (model_trace (buf_new ipn d s) h2)) /\
  (Forall okobs (model_trace (buf_new ipn d s) h1) ->
     is_complete (model_run (buf_new ipn d s) h1) = is_complete (model_run (buf_new ipn d s) h2)).
Proof. exact order_independent. Qed.
Print Assumptions C11_order_independent.

Theorem C11_consistent_complete : forall h ipn d s, consistent h ->
  (is_complete (model_run (buf_new ipn d s) h) = true <-> GCovered h).
Proof. exact consistent_complete. Qed.
Print Assumptions C11_consistent_complete.

(* ---- regression for the former finding F8 (IpDefragBuf::add accepted a final
   fragment that ends below data stored earlier; the reverse order was rejected).
   With the repaired add both orders reject the second delivery, with exactly
   these error values, and leave the buffer as it was; Model and Spec agree. *)
Definition f8_first : frag := mkFrag 0 true [0;1;2;3;4;5;6;7;8;9;10;11;12;13;14;15].
Definition f8_second : frag := mkFrag 1 false [170;187;204;221].

Example C11_f8_regression :
  let ba := model_run (buf_new 17 [] []) [f8_first] in
  let bz := model_run (buf_new 17 [] []) [f8_second] in
  LateEndClass [f8_first; f8_second] /\
  model_step ba f8_second = (VConflict 16 12, ba) /\
  model_step bz f8_first = (VConflict 12 16, bz) /\
  model_trace (buf_new 17 [] []) [f8_first; f8_second] = [(VOk, false, None); (VConflict 16 12, false, None)] /\
  spec_trace spec_new [f8_first; f8_second] = [(VOk, false, None); (VConflict 16 12, false, None)] /\
  model_trace (buf_new 17 [] []) [f8_second; f8_first] = [(VOk, false, None); (VConflict 12 16, false, None)] /\
  spec_trace spec_new [f8_second; f8_first] = [(VOk, false, None); (VConflict 12 16, false, None)].
Proof. exact f8_regression. Qed.

(* several stored sections [0,8) [32,40) [16,24) (Vec order): the maximum 40 is
   reported; a final fragment overlapping the top section but ending at 39 is
   rejected; ending exactly at the maximum (40), or beyond, is accepted; the F8
   pair with the final fragment reaching 16 completes *)
Example C11_f8_variants :
  let s0 := mkFrag 0 true [1;2;3;4;5;6;7;8] in
  let s4 := mkFrag 4 true [41;42;43;44;45;46;47;48] in
  let s2 := mkFrag 2 true [21;22;23;24;25;26;27;28] in
  let b := model_run (buf_new 6 [] []) [s0; s4; s2] in
  b_sections b = [mkRange 0 8; mkRange 32 40; mkRange 16 24] /\
  model_step b (mkFrag 3 false [9;9;9]) = (VConflict 40 27, b) /\
  model_step b (mkFrag 4 false [9;9;9;9;9;9;9]) = (VConflict 40 39, b) /\
  fst (model_step b (mkFrag 4 false [9;9;9;9;9;9;9;9])) = VOk /\
  fst (model_step b (mkFrag 5 false [])) = VOk /\
  fst (model_step b (mkFrag 5 false [7])) = VOk /\
  map (fun o : obs => fst o)
      (model_trace (buf_new 6 [] []) [mkFrag 0 true [0;1;2;3;4;5;6;7;8;9;10;11;12;13;14;15];
                                      mkFrag 1 false [170;187;204;221;1;2;3;4]])
    = [(VOk, false); (VOk, true)].
Proof. exact f8_variants. Qed.

(* hypotheses of C11_reject_late_end, C11_order_independent (a consistent and an
   inconsistent set) and C11_consistent_complete are satisfiable *)
Example C11_ex_late_end :
  let b := model_run (buf_new 17 [] []) [f8_first] in
  f_endp f8_second <= 65535 /\ b_end b = None /\ f_mf f8_second = false /\
  In (mkRange 0 16) (b_sections b) /\
  (forall r', In r' (b_sections b) -> r_end r' <= r_end (mkRange 0 16)) /\
  f_endp f8_second < r_end (mkRange 0 16).
Proof.
  cbv zeta. split; [vm_compute; discriminate|]. split; [vm_compute; reflexivity|]. split; [reflexivity|].
  split; [vm_compute; left; reflexivity|]. split; [|vm_compute; reflexivity].
  intros r' Hr'. vm_compute in Hr'. destruct Hr' as [Hr'|[]]. subst r'. vm_compute. discriminate.
Qed.

Example C11_ex_final_noop :
  let b := model_run (buf_new 17 [] []) [f8_first] in
  b_end b = None /\ sec_max (b_sections b) = Some 16 /\ len (b_data b) = 16 /\
  accepts b (mkFrag 1 false [1;2;3;4;5;6;7;8]) /\ Inv b.
Proof.
  cbv zeta. split; [vm_compute; reflexivity|]. split; [vm_compute; reflexivity|]. split; [vm_compute; reflexivity|].
  split; [|apply model_run_Inv, Inv_new].
  split; [vm_compute; discriminate|]. split; [discriminate|]. split.
  - intros p Hp. vm_compute in Hp. discriminate.
  - intros _ _ r Hr. vm_compute in Hr. destruct Hr as [Hr|[]]. subst r. vm_compute. discriminate.
Qed.

Example C11_ex_order :
  Permutation.Permutation [f8_first; f8_second] [f8_second; f8_first] /\
  ~ consistent [f8_first; f8_second] /\
  consistent [mkFrag 1 false [170;187;204;221]; mkFrag 0 true [0;1;2;3;4;5;6;7]] /\
  GCovered [mkFrag 1 false [170;187;204;221]; mkFrag 0 true [0;1;2;3;4;5;6;7]].
Proof.
  split; [apply Permutation.perm_swap|]. split; [|split].
  - intros [_ H]. specialize (H f8_second f8_first (or_intror (or_introl eq_refl)) (or_introl eq_refl) eq_refl).
    vm_compute in H. apply H. reflexivity.
  - rewrite <- (all_ok_iff _ 17 [] []). vm_compute. repeat constructor.
  - rewrite <- (consistent_complete _ 17 [] []).
    + vm_compute. reflexivity.
    + rewrite <- (all_ok_iff _ 17 [] []). vm_compute. repeat constructor.
Qed.

(* ---- the pool ---- *)
(* isolation: the answers to the deliveries of one stream id inside any
   interleaving with deliveries for other ids and buffer returns are the answers
   that id gets alone *)
Theorem C11_isolation : forall ops p id,
  results_for id (pool_trace p ops) = stream_trace (view id p) (for_id id ops).
Proof. exact isolation. Qed.
Print Assumptions C11_isolation.

(* one stream, fragments of P (every one with the more-fragments flag or a
   non-zero offset, otherwise the pool passes it through): nothing is returned
   while the delivered fragments do not cover P ... *)
Theorem C11_pool_never_early : forall P, len P <= 65535 -> forall ks,
  (forall kt, In kt ks -> pkt_ok P kt) ->
  (forall j, (j <= length ks)%nat -> ~ Covered P (firstn j (frags_of ks))) ->
  stream_trace None ks = map (fun _ => PNone) ks.
Proof. exact pool_never_early. Qed.
Print Assumptions C11_pool_never_early.

(* ... the delivery that completes the cover returns P with the packet's ip
   number, and the stream is released (the next packet of the id starts afresh) *)
Theorem C11_pool_completes : forall P, len P <= 65535 -> forall ks k ts,
  (forall kt, In kt ks -> pkt_ok P kt) -> pkt_ok P (k, ts) ->
  (forall j, (j <= length ks)%nat -> ~ Covered P (firstn j (frags_of ks))) ->
  Covered P (frags_of ks ++ [k_frag k]) ->
  stream_trace None (ks ++ [(k, ts)]) =
    map (fun _ => PNone) ks ++ [PDone (k_ipn k) (k_v4 k) (map Some P)] /\
  stream_run None (ks ++ [(k, ts)]) = None.
Proof. exact pool_completes. Qed.
Print Assumptions C11_pool_completes.

(* unfragmented packets pass through: no answer, no state *)
Theorem C11_passthrough : forall p k ts, is_fragmenting (k_frag k) = false ->
  process p k ts = (PNone, p).
Proof. exact passthrough. Qed.
Print Assumptions C11_passthrough.

(* whatever the history (reused buffers, conflicting fragments):
   a payload handed out by the pool contains no unwritten / stale byte and the
   pool never reaches the out-of-range slice *)
Theorem C11_pool_no_leak : forall ops id,
  Forall res_ok (results_for id (pool_trace pool_new ops)).
Proof. exact pool_no_leak. Qed.
Print Assumptions C11_pool_no_leak.

(* ---- non-vacuity ---- *)
Definition exP : bytes := [1;2;3;4;5;6;7;8;9;10;11;12;13;14;15;16;17;18;19].
Definition exCut : list frag := cut_at exP 0 [1; 1].

Example C11_ex_cut : exCut = [mkFrag 0 true [1;2;3;4;5;6;7;8]; mkFrag 1 true [9;10;11;12;13;14;15;16];
                              mkFrag 2 false [17;18;19]].
Proof. vm_compute. reflexivity. Qed.

(* hypotheses of C11_any_order hold for a reversed delivery with a duplicate *)
Example C11_ex_hyp : len exP <= 65535 /\ Forall (frag_of exP) (nth 2 exCut f8_first :: nth 1 exCut f8_first :: nth 1 exCut f8_first :: nth 0 exCut f8_first :: nil).
Proof.
  split; [vm_compute; discriminate|].
  pose proof (cut_frag_of exP [1; 1] 0) as H. rewrite Forall_forall in H.
  assert (Hb : (0 + sumN [1; 1]) * 8 <= len exP) by (vm_compute; discriminate).
  repeat constructor; apply H; try exact Hb; vm_compute; tauto.
Qed.

Example C11_ex_trace :
  model_trace (buf_new 17 [Some 255] [mkRange 0 1])
    [nth 2 exCut f8_first; nth 1 exCut f8_first; nth 1 exCut f8_first; nth 0 exCut f8_first]
  = [(VOk, false, None); (VOk, false, None); (VOk, false, None); (VOk, true, Some (map Some exP))].
Proof. vm_compute. reflexivity. Qed.

(* hypotheses of the three reject theorems *)
Example C11_ex_rejects :
  let b := model_run (buf_new 17 [] []) [mkFrag 2 false [17;18;19]] in
  model_step b (mkFrag 8191 false [1;2;3;4;5;6;7;8]) = (VTooBig 8191 8, b) /\
  model_step b (mkFrag 0 true [1;2;3]) = (VUnaligned 0 3, b) /\
  model_step b (mkFrag 2 true [1;2;3;4;5;6;7;8]) = (VConflict 19 24, b) /\
  model_step b (mkFrag 2 false [1;2]) = (VConflict 19 18, b).
Proof. vm_compute. repeat split; reflexivity. Qed.

(* two interleaved streams through the pool model *)
Example C11_ex_pool :
  let k id f := mkPkt [id] true 17 f in
  map snd (pool_trace pool_new
    [ODeliver (k 1 (mkFrag 1 false [9])) 1; ODeliver (k 2 (mkFrag 0 true [1;2;3;4;5;6;7;8])) 1;
     ODeliver (k 2 (mkFrag 1 false [7])) 2; ODeliver (k 1 (mkFrag 0 true [8;7;6;5;4;3;2;1])) 2])
  = [PNone; PNone; PDone 17 true (map Some [1;2;3;4;5;6;7;8;7]); PDone 17 true (map Some [8;7;6;5;4;3;2;1;9])].
Proof. vm_compute. reflexivity. Qed.

(* ======================================================================
   Release, recycling and retain (second part; model: Defrag/PoolModel.v,
   lemmas: Defrag/PoolProofs.v).  Histories `list rop` are made of the three
   public operations process_sliced_packet / return_buf / retain and have any
   length; `retain` takes any predicate on (stream id, timestamp) -- the code's
   `Fn(&Timestamp) -> bool` is the case of a predicate that ignores the id.
   `stats p` is what the hook `verif_stats` returns; `pool_wf p` says that the
   HashMap has one entry per key (holds for pool_new, kept by every operation).
   ====================================================================== *)
From EP Require Import Defrag.PoolModel Defrag.PoolProofs.

(* Model.v's retain (cutoff on the timestamp) is an instance of retain_f *)
Theorem C11_retain_instance : forall p c, retain p c = retain_f p (fun _ t => c <=? t).
Proof. exact retain_is_retain_f. Qed.
Print Assumptions C11_retain_instance.

(* one entry per key: every reachable pool *)
Theorem C11_wf_reachable : forall ops p, pool_wf p -> pool_wf (rrun p ops).
Proof. exact rrun_wf. Qed.
Print Assumptions C11_wf_reachable.

(* ---- C11_release: a delivery that returns a payload found an entry, its add succeeded and
   completed the buffer; exactly that entry leaves `active` (every other stream keeps its
   entry, the number of entries drops by one), its section vector is pushed to
   finished_section_bufs, its data vector IS the payload handed to the caller, and
   finished_data_bufs is untouched (the caller may give the vector back with return_buf) ---- *)
Theorem C11_release : forall p k ts ipn v4 pl p', pool_wf p -> process p k ts = (PDone ipn v4 pl, p') ->
  exists b t b',
    view (k_id k) p = Some (b, t) /\ add b (k_frag k) = AddOk b' /\ is_complete b' = true /\
    ipn = k_ipn k /\ v4 = k_v4 k /\ pl = b_data b' /\
    p_active p' = aremove (k_id k) (p_active p) /\
    view (k_id k) p' = None /\
    (forall id', id' <> k_id k -> view id' p' = view id' p) /\
    len (p_active p') + 1 = len (p_active p) /\
    p_fdata p' = p_fdata p /\
    p_fsec p' = b_sections b' :: p_fsec p.
Proof. exact release_complete. Qed.
Print Assumptions C11_release.

(* a failing FIRST add creates no entry and pushes both vectors taken for it (popped from the
   free lists or freshly allocated), cleared, to the free lists: nothing is lost *)
Theorem C11_release_first_err : forall p k ts v p', view (k_id k) p = None -> process p k ts = (PErr v, p') ->
  p_active p' = p_active p /\
  p_fdata p' = [] :: tl (p_fdata p) /\
  p_fsec p' = [] :: tl (p_fsec p) /\
  len (p_fdata p') = N.max 1 (len (p_fdata p)) /\
  len (p_fsec p') = N.max 1 (len (p_fsec p)).
Proof. exact release_first_err. Qed.
Print Assumptions C11_release_first_err.

(* an error on an existing entry changes nothing at all *)
Theorem C11_release_err_occupied : forall p k ts v p' b t, view (k_id k) p = Some (b, t) ->
  process p k ts = (PErr v, p') -> p' = p.
Proof. exact release_err_occupied. Qed.
Print Assumptions C11_release_err_occupied.

(* the three numbers of verif_stats after ANY delivery, by answer (delivery_stats in PoolModel.v):
   payload: (a-1, d, s+1), never on the Vacant path; nothing: Vacant (a+1, d-1, s-1) with 0-1 = 0
   (fresh allocation), Occupied unchanged; error: Vacant (a, max 1 d, max 1 s), Occupied unchanged *)
Theorem C11_delivery_stats : forall p k ts, pool_wf p ->
  delivery_stats p k (fst (process p k ts)) (snd (process p k ts)).
Proof. exact process_stats. Qed.
Print Assumptions C11_delivery_stats.

(* retain(f) removes exactly the streams for which f is false -- every stream's entry afterwards
   is `retain_view` of its entry before -- and recycles both vectors of each evicted stream *)
Theorem C11_retain_release : forall p f, pool_wf p ->
  let p' := retain_f p f in
  pool_wf p' /\
  (forall id, view id p' = retain_view id f (view id p)) /\
  p_active p' = filter (kept f) (p_active p) /\
  p_fdata p' = map (fun e => b_data (fst (snd e))) (filter (fun e => negb (kept f e)) (p_active p)) ++ p_fdata p /\
  p_fsec p' = map (fun e => b_sections (fst (snd e))) (filter (fun e => negb (kept f e)) (p_active p)) ++ p_fsec p /\
  len (p_active p') + evicted p f = len (p_active p) /\
  len (p_fdata p') = len (p_fdata p) + evicted p f /\
  len (p_fsec p') = len (p_fsec p) + evicted p f.
Proof. exact retain_release. Qed.
Print Assumptions C11_retain_release.

(* ---- conservation, every history from the empty pool: each data vector the pool allocated
   (or the caller donated) is in an entry, in the free list or in the caller's hands; each section
   vector is in an entry or in the free list.  `lrun` keeps the caller's ledger next to the pool. ---- *)
Theorem C11_conservation : forall ops,
  pool_wf (rrun pool_new ops) /\ balanced (rrun pool_new ops) (snd (lrun pool_new ledger0 ops)).
Proof. exact conservation. Qed.
Print Assumptions C11_conservation.

(* the same from any balanced state *)
Theorem C11_conservation_from : forall ops p l, pool_wf p -> balanced p l ->
  pool_wf (fst (lrun p l ops)) /\ balanced (fst (lrun p l ops)) (snd (lrun p l ops)).
Proof. exact lrun_balanced. Qed.
Print Assumptions C11_conservation_from.

(* the pool allocates a vector only on a Vacant entry whose free list is empty (one per list);
   the only other source of vectors is a return_buf while the caller holds none of the pool's *)
Theorem C11_alloc_only_when_empty : forall p l o,
  (l_new_data (lstep p l o) <> l_new_data l ->
     exists k ts, o = RDeliver k ts /\ vacant p k = true /\ p_fdata p = [] /\
                  l_new_data (lstep p l o) = l_new_data l + 1) /\
  (l_new_sec (lstep p l o) <> l_new_sec l ->
     exists k ts, o = RDeliver k ts /\ vacant p k = true /\ p_fsec p = [] /\
                  l_new_sec (lstep p l o) = l_new_sec l + 1) /\
  (l_foreign (lstep p l o) <> l_foreign l ->
     exists pl, o = RReturn pl /\ l_held l = 0 /\ l_foreign (lstep p l o) = l_foreign l + 1).
Proof. exact alloc_only_when_empty. Qed.
Print Assumptions C11_alloc_only_when_empty.

(* active*2 + pooled + handed out changes, in every step, exactly by those allocations *)
Theorem C11_total_step : forall p l o, pool_wf p ->
  total (snd (rstep p o)) (lstep p l o) + l_new_data l + l_new_sec l + l_foreign l =
  total p l + l_new_data (lstep p l o) + l_new_sec (lstep p l o) + l_foreign (lstep p l o).
Proof. exact total_step. Qed.
Print Assumptions C11_total_step.

(* ---- cleared before use ----
   the entry created by a first fragment is built from empty vectors whatever the free lists held *)
Theorem C11_first_fragment_clean : forall p k ts, is_fragmenting (k_frag k) = true -> view (k_id k) p = None ->
  view (k_id k) (snd (process p k ts)) =
    match add (mkBuf (k_ipn k) [] [] None) (k_frag k) with
    | AddOk b' => Some (b', ts)
    | _ => None
    end.
Proof. exact first_fragment_clean. Qed.
Print Assumptions C11_first_fragment_clean.

(* ... and therefore no answer and no number of any history depends on the CONTENTS of the free
   lists or of the vectors given to return_buf: two pools with the same entries and equally long
   free lists, two histories that differ only in the returned vectors -> same answers, same stats *)
Theorem C11_free_list_contents_irrelevant : forall ops1 ops2 p q, pool_sim p q -> Forall2 rop_sim ops1 ops2 ->
  rtrace p ops1 = rtrace q ops2 /\ stats_trace p ops1 = stats_trace q ops2 /\
  pool_sim (rrun p ops1) (rrun q ops2).
Proof. exact free_list_contents_irrelevant. Qed.
Print Assumptions C11_free_list_contents_irrelevant.

(* ---- isolation with retain ----
   general form: the answers for one id inside any history are those of the id's own deliveries
   with every retain applied to its entry alone (sev_trace); likewise its entry at the end *)
Theorem C11_isolation_retain : forall ops p id, pool_wf p ->
  results_for id (rtrace p ops) = sev_trace id (view id p) (events_for id ops) /\
  view id (rrun p ops) = sev_run id (view id p) (events_for id ops).
Proof. exact isolation_retain. Qed.
Print Assumptions C11_isolation_retain.

(* retain calls that keep the observed stream (whenever they run: f id t = true for the entry's
   current timestamp, or there is no entry) do not change its answers: they are the answers
   the stream's deliveries get alone -- C11_isolation extended to retain *)
Theorem C11_isolation_keep : forall ops p id, pool_wf p -> keeps id (view id p) (events_for id ops) ->
  results_for id (rtrace p ops) = stream_trace (view id p) (deliveries (events_for id ops)).
Proof. exact isolation_keep. Qed.
Print Assumptions C11_isolation_keep.

(* sufficient: every predicate used keeps the id whatever its timestamp *)
Theorem C11_isolation_keep_always : forall ops p id, pool_wf p ->
  (forall f, In (RRetain f) ops -> forall t, f id t = true) ->
  results_for id (rtrace p ops) = stream_trace (view id p) (deliveries (events_for id ops)).
Proof. exact isolation_keep_always. Qed.
Print Assumptions C11_isolation_keep_always.

(* the histories of C11_isolation are the histories without retain *)
Theorem C11_rtrace_embed : forall ops p,
  rtrace p (map rop_of ops) = pool_trace p ops /\
  forall id, deliveries (events_for id (map rop_of ops)) = for_id id ops.
Proof. exact embed_both. Qed.
Print Assumptions C11_rtrace_embed.

(* ---- eviction of a partially received stream: its later fragments start a new stream.  The
   answers after the eviction are sev_trace from NO entry over the later events: a function of
   the later events alone ---- *)
Theorem C11_evict_restart : forall ops1 f ops2 p id b t, pool_wf p ->
  view id (rrun p ops1) = Some (b, t) -> f id t = false ->
  results_for id (rtrace p (ops1 ++ RRetain f :: ops2)) =
    results_for id (rtrace p ops1) ++ sev_trace id None (events_for id ops2).
Proof. exact evict_partial. Qed.
Print Assumptions C11_evict_restart.

(* ... so nothing received before the eviction can appear in a later answer: two pools, two
   different pasts of the stream, both evicted, the same later history -> the same later answers *)
Theorem C11_evict_no_leak : forall ops1 ops1' f f' ops2 p p' id, pool_wf p -> pool_wf p' ->
  retain_view id f (view id (rrun p ops1)) = None ->
  retain_view id f' (view id (rrun p' ops1')) = None ->
  skipn (length (results_for id (rtrace p ops1))) (results_for id (rtrace p (ops1 ++ RRetain f :: ops2))) =
  skipn (length (results_for id (rtrace p' ops1'))) (results_for id (rtrace p' (ops1' ++ RRetain f' :: ops2))).
Proof. exact evict_no_leak. Qed.
Print Assumptions C11_evict_no_leak.

(* ... and the rest of the evicted datagram never completes on its own: as long as the fragments
   delivered AFTER the eviction do not cover P, every answer is `nothing` *)
Theorem C11_evicted_rest_never_completes : forall P, len P <= 65535 -> forall ops1 f ops2 p id, pool_wf p ->
  retain_view id f (view id (rrun p ops1)) = None ->
  (forall g, In (RRetain g) ops2 -> forall t, g id t = true) ->
  let ks := deliveries (events_for id ops2) in
  (forall kt, In kt ks -> pkt_ok P kt) ->
  (forall j, (j <= length ks)%nat -> ~ Covered P (firstn j (frags_of ks))) ->
  results_for id (rtrace p (ops1 ++ RRetain f :: ops2)) =
    results_for id (rtrace p ops1) ++ map (fun _ => PNone) ks.
Proof. exact evicted_rest_never_completes. Qed.
Print Assumptions C11_evicted_rest_never_completes.

(* C11_pool_no_leak for histories with retain *)
Theorem C11_pool_no_leak_retain : forall ops id,
  Forall res_ok (results_for id (rtrace pool_new ops)).
Proof. exact pool_no_leak_retain. Qed.
Print Assumptions C11_pool_no_leak_retain.

(* ---- non-vacuity of the second part ---- *)
Definition exK (id : N) (f : frag) : pkt := mkPkt [id] true 17 f.
Definition exA : frag := mkFrag 0 true [1;2;3;4;5;6;7;8].
Definition exZ : frag := mkFrag 1 false [9].
(* stream 1 half received, stream 2 complete, a failing first fragment for stream 3, the payload
   returned, stream 1 evicted by a predicate on the timestamp, its late fragment starts afresh *)
Definition exHist : list rop :=
  [RDeliver (exK 1 exA) 1; RDeliver (exK 2 exA) 2; RDeliver (exK 2 exZ) 3;
   RDeliver (exK 3 (mkFrag 0 true [1;2;3])) 4; RReturn [Some 1; Some 2]; RRetain (fun _ t => 2 <=? t);
   RDeliver (exK 1 exZ) 5; RDeliver (exK 1 exA) 6].

Example C11_ex_hist_answers : map snd (rtrace pool_new exHist) =
  [PNone; PNone; PDone 17 true (map Some [1;2;3;4;5;6;7;8;9]); PErr (VUnaligned 0 3); PNone;
   PDone 17 true (map Some [1;2;3;4;5;6;7;8;9])].
Proof. vm_compute. reflexivity. Qed.

Example C11_ex_hist_stats : stats_trace pool_new exHist =
  [(1,0,0); (2,0,0); (1,0,1); (1,1,1); (1,2,1); (0,3,2); (1,2,1); (0,2,2)].
Proof. vm_compute. reflexivity. Qed.

Example C11_ex_hist_ledger : snd (lrun pool_new ledger0 exHist) = mkLedger 1 3 2 0.
Proof. vm_compute. reflexivity. Qed.

(* hypotheses of C11_release / C11_release_first_err / C11_evict_restart are satisfiable *)
Example C11_ex_release_hyp :
  let p := rrun pool_new (firstn 2 exHist) in
  pool_wf p /\ fst (process p (exK 2 exZ) 3) = PDone 17 true (map Some [1;2;3;4;5;6;7;8;9]) /\
  view [3] p = None /\ fst (process p (exK 3 (mkFrag 0 true [1;2;3])) 4) = PErr (VUnaligned 0 3).
Proof.
  split; [apply C11_wf_reachable; constructor|]. vm_compute. repeat split; reflexivity.
Qed.

Example C11_ex_evict_hyp :
  exists b, view [1] (rrun pool_new (firstn 5 exHist)) = Some (b, 1) /\ (2 <=? 1) = false /\
  keeps [2] (view [2] pool_new) (events_for [2] exHist) /\ ~ keeps [1] (view [1] pool_new) (events_for [1] exHist).
Proof.
  eexists. split; [vm_compute; reflexivity|]. split; [reflexivity|]. split.
  - vm_compute. tauto.
  - vm_compute. intros [H _]. discriminate H.
Qed.

(* two histories that differ only in the returned vector, two pools that differ only in the
   contents of the free lists *)
Example C11_ex_sim :
  pool_sim (mkPool [] [[Some 255; Some 254]] [[mkRange 0 8]]) (mkPool [] [[]] [[]]) /\
  Forall2 rop_sim [RReturn [Some 1]; RRetain (fun _ t => 2 <=? t)] [RReturn []; RRetain (fun _ t => negb (t <? 2))].
Proof.
  split; [vm_compute; auto|]. constructor; [constructor|]. constructor; [|constructor].
  constructor. intros id t. destruct (N.leb_spec 2 t), (N.ltb_spec t 2); try reflexivity; lia.
Qed.

(* ======================================================================
   The step  packet -> (stream id, offset, more-fragments flag, payload, protocol)
   (third part; model and wire specification: Defrag/PacketStep.v, lemmas:
   Defrag/PacketStepProofs.v).

   Model : `frag_key_of p chan` = the `match &slice.net { .. }` at the start of
           `IpDefragPool::process_sliced_packet` over the model of `SlicedPacket` and the accessor
           models of Parse/Access.v (Ipv4HeaderSlice::{is_fragmenting_payload, source, destination,
           identification, fragments_offset, more_fragments}, the Ipv6ExtensionSliceIter loop that
           looks for the first fragment header, Ipv6FragmentHeaderSlice::{is_fragmenting_payload,
           to_header}, Ipv6HeaderSlice::{source, destination}, SlicedPacket::vlan_ids with
           SingleVlanSlice::vlan_identifier, payload().ip_number); `frag_id` = `IpFragId` with
           `IpFragVersionSpecId` (derived Eq = structural equality); `encode_id` embeds it into the
           abstract ids `fid` of the pool model; `process_sliced_packet` = extraction, then
           `Model.process`; `pk_trace` = a history of received FRAMES (bytes), each sliced with one
           of the four entry points of SlicedPacket (a frame the slicer rejects never reaches the pool).
   Spec  : `wire_key bs v chan` = the same data read off the wire: the layers / windows of the
           reference decoder (Parse/WireSpec.v) and the RFC fields at their ABSOLUTE positions
           (Parse/Fields.v): IPv4 source = octets 12..16, destination = octets 16..20,
           identification = octets 4..6, MF = bit 2 and fragment offset = bits 3..16 of octets 6..8
           of the IPv4 header; IPv6 source = octets 8..24, destination = octets 24..40 of the IPv6
           header; the fragment header = the first header with number 44 found by walking the RFC 8200
           chain from the IPv6 header's next-header octet (`frag_pos`), its identification = octets
           4..8, fragment offset = first 13 bits and M = last bit of octets 2..4; VLAN ids = the 12
           VID bits of the TCI of every 802.1Q tag, outermost first; payload protocol number and
           payload window = those of the reference decoder's IP payload.
   ====================================================================== *)
From EP Require Import Parse.Types Parse.Slices Parse.Cursor Parse.View Parse.WireSpec
  Parse.Access Parse.Fields.
From EP Require Import Defrag.PacketStep Defrag.PacketStepProofs.

(* (a) the structured id: two ids are the same stream of the pool model exactly when they agree on
   ALL of: VLAN ids (all of them, in order), IP version, source, destination, identification,
   payload protocol number, channel *)
Theorem C11_id_injective : forall a b,
  encode_id a = encode_id b <->
  fi_vlans a = fi_vlans b /\
  id_is_v4 (fi_ip a) = id_is_v4 (fi_ip b) /\
  id_src (fi_ip a) = id_src (fi_ip b) /\
  id_dst (fi_ip a) = id_dst (fi_ip b) /\
  id_ident (fi_ip a) = id_ident (fi_ip b) /\
  fi_ipn a = fi_ipn b /\
  fi_chan a = fi_chan b.
Proof. exact same_stream_iff. Qed.
Print Assumptions C11_id_injective.

(* (a)+(c) every frame, every entry point: the slicing model never reaches Bug; when the slicer
   accepts, the reference decoder accepts with the same layers, `frag_key_of` never reaches Bug
   (no out-of-range read, no push on a full ArrayVec, no fuel exhaustion) and its result -- id,
   offset, flag, payload window, version -- IS the wire key; the bytes handed to IpDefragBuf::add are
   the octets of the payload window; when the slicer rejects, the frame is no fragment by the wire
   formats either *)
Theorem C11_packet_key : forall e bs chan, bytes_ok bs ->
  match slice_with e bs with
  | Ok p =>
      wire_with e bs = VOk (View.view p) /\
      exists ok, frag_key_of p chan = Ok ok /\
        option_map key_view ok = wire_frag_of e bs chan /\
        forall k, ok = Some k ->
          k_frag (pkt_of_key k) = frag_of_wire bs (key_view k) /\
          k_ipn (pkt_of_key k) = fi_ipn (fk_id k) /\
          k_v4 (pkt_of_key k) = id_is_v4 (fi_ip (fk_id k)) /\
          is_fragmenting (k_frag (pkt_of_key k)) = true
  | Err _ => wire_frag_of e bs chan = None
  | Bug _ => False
  end.
Proof. exact packet_key. Qed.
Print Assumptions C11_packet_key.

(* (a) on the wire, IPv4: two fragments belong to the same stream exactly when they agree on the VID
   bits of all their VLAN tags, octets 12..16, 16..20 and 4..6 of the IPv4 header, the payload
   protocol number and the channel -- TTL, DSCP/ECN, checksum, options, MAC addresses, PCP/DEI,
   total length, offset and flags do not enter *)
Theorem C11_same_stream_v4_wire : forall bs1 bs2 v1 v2 c1 c2 h1 a1 pl1 h2 a2 pl2 w1 w2,
  v_net v1 = Some (VIpv4 h1 a1 pl1) -> v_net v2 = Some (VIpv4 h2 a2 pl2) ->
  wire_key bs1 v1 c1 = Some w1 -> wire_key bs2 v2 c2 = Some w2 ->
  (encode_id (wf_id w1) = encode_id (wf_id w2) <->
   wire_vids bs1 (v_exts v1) = wire_vids bs2 (v_exts v2) /\
   bytes_at bs1 (fst h1 + 12) 4 = bytes_at bs2 (fst h2 + 12) 4 /\
   bytes_at bs1 (fst h1 + 16) 4 = bytes_at bs2 (fst h2 + 16) 4 /\
   W bs1 (fst h1 + 4) = W bs2 (fst h2 + 4) /\
   vip_number pl1 = vip_number pl2 /\
   c1 = c2).
Proof. exact same_stream_v4_wire. Qed.
Print Assumptions C11_same_stream_v4_wire.

(* IPv6: octets 8..24 and 24..40 of the IPv6 header, octets 4..8 of the first fragment header of the
   chain (at q1 / q2) -- traffic class, flow label, hop limit and the other extension headers do
   not enter *)
Theorem C11_same_stream_v6_wire : forall bs1 bs2 v1 v2 c1 c2 h1 f1 g1 x1 pl1 h2 f2 g2 x2 pl2 q1 q2 w1 w2,
  v_net v1 = Some (VIpv6 h1 f1 g1 x1 pl1) -> v_net v2 = Some (VIpv6 h2 f2 g2 x2 pl2) ->
  frag_pos bs1 (S (N.to_nat (snd x1))) (B bs1 (fst h1 + 6)) (fst x1) (fst x1 + snd x1) = Some q1 ->
  frag_pos bs2 (S (N.to_nat (snd x2))) (B bs2 (fst h2 + 6)) (fst x2) (fst x2 + snd x2) = Some q2 ->
  wire_key bs1 v1 c1 = Some w1 -> wire_key bs2 v2 c2 = Some w2 ->
  (encode_id (wf_id w1) = encode_id (wf_id w2) <->
   wire_vids bs1 (v_exts v1) = wire_vids bs2 (v_exts v2) /\
   bytes_at bs1 (fst h1 + 8) 16 = bytes_at bs2 (fst h2 + 8) 16 /\
   bytes_at bs1 (fst h1 + 24) 16 = bytes_at bs2 (fst h2 + 24) 16 /\
   num_at bs1 (q1 + 4) 4 = num_at bs2 (q2 + 4) 4 /\
   vip_number pl1 = vip_number pl2 /\
   c1 = c2).
Proof. exact same_stream_v6_wire. Qed.
Print Assumptions C11_same_stream_v6_wire.

(* an IPv4 and an IPv6 fragment never share a stream, whatever their addresses / identification *)
Theorem C11_diff_version_wire : forall bs1 bs2 v1 v2 c1 c2 h1 a1 pl1 h2 f2 g2 x2 pl2 w1 w2,
  v_net v1 = Some (VIpv4 h1 a1 pl1) -> v_net v2 = Some (VIpv6 h2 f2 g2 x2 pl2) ->
  wire_key bs1 v1 c1 = Some w1 -> wire_key bs2 v2 c2 = Some w2 ->
  encode_id (wf_id w1) <> encode_id (wf_id w2).
Proof. exact diff_version_wire. Qed.
Print Assumptions C11_diff_version_wire.

(* the two together: for two frames the slicer accepts and the crate treats as fragments, the pool
   uses the same stream id exactly when their wire ids are equal *)
Theorem C11_packets_same_stream : forall e1 bs1 c1 p1 k1 e2 bs2 c2 p2 k2,
  bytes_ok bs1 -> bytes_ok bs2 ->
  slice_with e1 bs1 = Ok p1 -> slice_with e2 bs2 = Ok p2 ->
  frag_key_of p1 c1 = Ok (Some k1) -> frag_key_of p2 c2 = Ok (Some k2) ->
  exists w1 w2,
    wire_key bs1 (View.view p1) c1 = Some w1 /\ wire_key bs2 (View.view p2) c2 = Some w2 /\
    wire_with e1 bs1 = VOk (View.view p1) /\ wire_with e2 bs2 = VOk (View.view p2) /\
    (k_id (pkt_of_key k1) = k_id (pkt_of_key k2) <-> wf_id w1 = wf_id w2).
Proof. exact packets_same_stream. Qed.
Print Assumptions C11_packets_same_stream.

(* (b) pass-through: `frag_key_of` answers `None` exactly when the packet is not a fragment on the
   wire (IPv4: MF = 0 and offset = 0; IPv6: no fragment header in the chain, or M = 0 and offset = 0
   in the first one; ARP / no network layer), and then process_sliced_packet returns
   (nothing, pool unchanged) *)
Theorem C11_packet_passthrough : forall e bs p chan, bytes_ok bs -> slice_with e bs = Ok p ->
  (frag_key_of p chan = Ok None <-> wire_unfragmented bs (View.view p)) /\
  (wire_unfragmented bs (View.view p) ->
   forall pl ts, process_sliced_packet pl p ts chan = Ok (PNone, pl)).
Proof. exact packet_passthrough. Qed.
Print Assumptions C11_packet_passthrough.

(* (c) a fragment: process_sliced_packet = the pool model of Defrag/Model.v run on the WIRE fields:
   stream id, offset (f_off = offset field * 8), M flag, the octets of the IP payload window, the
   payload protocol number *)
Theorem C11_packet_fragment : forall e bs p chan w, bytes_ok bs -> slice_with e bs = Ok p ->
  wire_key bs (View.view p) chan = Some w ->
  forall pl ts,
    process_sliced_packet pl p ts chan =
      Ok (process pl (mkPkt (encode_id (wf_id w)) (id_is_v4 (fi_ip (wf_id w))) (fi_ipn (wf_id w))
                        (frag_of_wire bs w)) ts) /\
    is_fragmenting (frag_of_wire bs w) = true.
Proof. exact packet_fragment. Qed.
Print Assumptions C11_packet_fragment.

(* (d) isolation over FRAME histories: whatever frames arrive in whatever order on whatever channel
   (fragments of other datagrams, unfragmented packets, frames the slicer rejects, buffer returns),
   the answers to the frames whose wire id is i are the answers its own fragments get alone *)
Theorem C11_packets_isolation : forall pl i ops, Forall op_bytes_ok ops ->
  exists tr, pk_trace pl ops = Ok tr /\
    answers_for (encode_id i) tr =
      stream_trace (Defrag.Proofs.view (encode_id i) pl) (map (pkt_for i) (wire_for i ops)).
Proof. exact packets_isolation. Qed.
Print Assumptions C11_packets_isolation.

(* ... hence: the frames with wire id i are fragments of P; nothing is returned while they do not
   cover P, and the frame that completes the cover is answered with P (protocol number and length
   source of i), exactly once -- inside any interleaving with frames of datagrams that differ from i
   in at least one key field (C11_id_injective / C11_same_stream_v4_wire / _v6_wire) *)
Theorem C11_packets_complete : forall P i ops pl ks f ts,
  len P <= 65535 -> Forall op_bytes_ok ops ->
  Defrag.Proofs.view (encode_id i) pl = None ->
  wire_for i ops = ks ++ [(f, ts)] ->
  (forall g, In g (map fst ks) -> frag_of P g) -> frag_of P f ->
  (forall j, (j <= length ks)%nat -> ~ Covered P (firstn j (map fst ks))) ->
  Covered P (map fst ks ++ [f]) ->
  exists tr, pk_trace pl ops = Ok tr /\
    answers_for (encode_id i) tr =
      map (fun _ => PNone) ks ++ [PDone (fi_ipn i) (id_is_v4 (fi_ip i)) (map Some P)].
Proof. exact packets_complete. Qed.
Print Assumptions C11_packets_complete.

(* ---- non-vacuity ---- *)
Definition pk_eth (et : N) : bytes := [7;8;9;10;11;12; 1;2;3;4;5;6; et / 256; et mod 256].
Definition pk_vlan (tci et : N) : bytes := [tci / 256; tci mod 256; et / 256; et mod 256].
(* IPv4, 20 octets: DSCP/ECN octet, identification, flags+offset, TTL, protocol 17, 10.0.0.1 -> dst *)
Definition pk_v4 (tos ident flags_fo ttl : N) (dst : bytes) (payload : bytes) : bytes :=
  [69; tos; 0; 20 + len payload; ident / 256; ident mod 256; flags_fo / 256; flags_fo mod 256;
   ttl; 17; 0; 0; 10; 0; 0; 1] ++ dst ++ payload.
(* IPv6 + hop-by-hop (8 octets) + fragment header; hd4 = octets 0..4 (version, traffic class, flow label) *)
Definition pk_v6 (hd4 : bytes) (hop : N) (fo_m ident : N) (payload : bytes) : bytes :=
  hd4 ++ [0; 16 + len payload; 0; hop] ++
  [32;1;13;184;0;0;0;0;0;0;0;0;0;0;0;1] ++ [32;1;13;184;0;0;0;0;0;0;0;0;0;0;0;2] ++
  [44; 0; 1; 4; 0; 0; 0; 0] ++
  [17; 0; fo_m / 256; fo_m mod 256; 0; 0; ident / 256; ident mod 256] ++ payload.

(* VLAN 5 (PCP 3, DEI 1 set: TCI 0x7005) / IPv4 id 7, MF, offset 0, 8 octets *)
Definition exA1 : bytes := pk_eth 33024 ++ pk_vlan 28677 2048 ++ pk_v4 0 7 8192 64 [10;0;0;2] [1;2;3;4;5;6;7;8].
(* the rest of the same datagram with another TTL, DSCP, PCP: offset 1, last *)
Definition exA2 : bytes := pk_eth 33024 ++ pk_vlan 5 2048 ++ pk_v4 184 7 1 3 [10;0;0;2] [9;10;11].
(* differs from A in ONE bit of the destination *)
Definition exB1 : bytes := pk_eth 33024 ++ pk_vlan 5 2048 ++ pk_v4 0 7 8192 64 [10;0;0;3] [21;22;23;24;25;26;27;28].
Definition exB2 : bytes := pk_eth 33024 ++ pk_vlan 5 2048 ++ pk_v4 0 7 1 64 [10;0;0;3] [29].
(* not a fragment *)
Definition exU : bytes := pk_eth 2048 ++ pk_v4 0 7 0 64 [10;0;0;2] [0;53;0;53;0;12;0;0;1;2;3;4].
(* IPv6: hop-by-hop in front of the fragment header, identification 7, offset 1, last; traffic class / flow label set *)
Definition exV6 : bytes := pk_eth 34525 ++ pk_v6 [106;188;222;241] 9 8 7 [1;2;3].

Definition exIdA : frag_id := mkFragId [5] (IdV4 [10;0;0;1] [10;0;0;2] 7) 17 3.
Definition exIdB : frag_id := mkFragId [5] (IdV4 [10;0;0;1] [10;0;0;3] 7) 17 3.

Example C11_ex_key_v4 :
  bytes_ok exA1 /\
  exists p, SlicedPacket.from_ethernet exA1 = Ok p /\
    frag_key_of p 3 =
      Ok (Some (mkFragKey exIdA 0 true
                  (mkIpPayload 17 true LsIpv4HeaderTotalLen (38, [1;2;3;4;5;6;7;8])) true)) /\
    wire_frag_of EEthernet exA1 3 = Some (mkWireFrag exIdA 0 true (38, 8) true).
Proof.
  split; [apply bytes_okb_spec; vm_compute; reflexivity|].
  eexists. split; [vm_compute; reflexivity|]. split; vm_compute; reflexivity.
Qed.

(* the key of an IPv6 fragment: found behind the hop-by-hop header; the flow label is not in it *)
Example C11_ex_key_v6 :
  bytes_ok exV6 /\
  exists p, SlicedPacket.from_ethernet exV6 = Ok p /\
    option_map key_view match frag_key_of p 0 with Ok o => o | _ => None end =
      Some (mkWireFrag (mkFragId [] (IdV6 [32;1;13;184;0;0;0;0;0;0;0;0;0;0;0;1]
                                          [32;1;13;184;0;0;0;0;0;0;0;0;0;0;0;2] 7) 17 0)
              1 false (70, 3) false) /\
    wire_frag_of EEthernet exV6 0 = option_map key_view match frag_key_of p 0 with Ok o => o | _ => None end.
Proof.
  split; [apply bytes_okb_spec; vm_compute; reflexivity|].
  eexists. split; [vm_compute; reflexivity|]. split; vm_compute; reflexivity.
Qed.

(* same stream although TTL, DSCP and PCP/DEI differ; another stream when one destination bit,
   the channel or the IP version differs (IPv6 with the numerically same identification) *)
Example C11_ex_same_diff :
  option_map wf_id (wire_frag_of EEthernet exA1 3) = Some exIdA /\
  option_map wf_id (wire_frag_of EEthernet exA2 3) = Some exIdA /\
  option_map wf_id (wire_frag_of EEthernet exB1 3) = Some exIdB /\
  encode_id exIdA <> encode_id exIdB /\
  option_map wf_id (wire_frag_of EEthernet exA1 4) <> Some exIdA /\
  wire_frag_of EEthernet exU 3 = None /\
  (exists p, SlicedPacket.from_ethernet exU = Ok p /\ wire_unfragmented exU (View.view p)).
Proof.
  split; [vm_compute; reflexivity|]. split; [vm_compute; reflexivity|]. split; [vm_compute; reflexivity|].
  split; [vm_compute; discriminate|]. split; [vm_compute; discriminate|]. split; [vm_compute; reflexivity|].
  eexists. split; [vm_compute; reflexivity|]. vm_compute. split; reflexivity.
Qed.

(* two datagrams whose ids differ in one destination bit, an unfragmented packet, an IPv6 fragment and a
   buffer return, interleaved: the frame history through slicing, key extraction and the pool model *)
Definition exOps : list pk_op :=
  [KPacket EEthernet exA1 1 3; KPacket EEthernet exB2 2 3; KPacket EEthernet exU 3 3;
   KPacket EEthernet exV6 4 3; KPacket EEthernet exB1 5 3; KReturn [Some 1];
   KPacket EEthernet [1;2;3] 6 3; KPacket EEthernet exA2 7 3].

Example C11_ex_packets :
  pk_trace pool_new exOps =
    Ok [(Some (encode_id exIdA), PNone); (Some (encode_id exIdB), PNone); (None, PNone);
        (Some (encode_id (mkFragId [] (IdV6 [32;1;13;184;0;0;0;0;0;0;0;0;0;0;0;1]
                                            [32;1;13;184;0;0;0;0;0;0;0;0;0;0;0;2] 7) 17 3)), PNone);
        (Some (encode_id exIdB), PDone 17 true (map Some [21;22;23;24;25;26;27;28;29]));
        (None, PNone); (None, PNone);
        (Some (encode_id exIdA), PDone 17 true (map Some [1;2;3;4;5;6;7;8;9;10;11]))].
Proof. vm_compute. reflexivity. Qed.

(* the hypotheses of C11_packets_complete hold for datagram A inside that history *)
Example C11_ex_packets_hyp :
  let P := [1;2;3;4;5;6;7;8;9;10;11] in
  let f1 := mkFrag 0 true [1;2;3;4;5;6;7;8] in let f2 := mkFrag 1 false [9;10;11] in
  len P <= 65535 /\ Forall op_bytes_ok exOps /\ Defrag.Proofs.view (encode_id exIdA) pool_new = None /\
  wire_for exIdA exOps = [(f1, 1)] ++ [(f2, 7)] /\
  (forall g, In g (map fst [(f1, 1)]) -> frag_of P g) /\ frag_of P f2 /\
  (forall j, (j <= length [(f1, 1)])%nat -> ~ Covered P (firstn j (map fst [(f1, 1)]))) /\
  Covered P (map fst [(f1, 1)] ++ [f2]).
Proof.
  cbv zeta. split; [vm_compute; discriminate|]. split.
  { repeat constructor; apply bytes_okb_spec; vm_compute; reflexivity. }
  split; [reflexivity|]. split; [vm_compute; reflexivity|]. split.
  { intros g [<-|[]]. vm_compute. repeat split; try reflexivity; try discriminate. }
  split; [vm_compute; repeat split; try reflexivity; discriminate|]. split.
  { intros j Hj ((g & Hg & Hm) & _). destruct j as [|[|j]]; cbn in Hg, Hj.
    - destruct Hg.
    - destruct Hg as [<-|[]]. discriminate.
    - lia. }
  split.
  - eexists. split; [right; left; reflexivity|reflexivity].
  - intros i Hi. change (len [1; 2; 3; 4; 5; 6; 7; 8; 9; 10; 11]) with 11 in Hi.
    destruct (N.ltb_spec i 8).
    + eexists. split; [left; reflexivity|]. vm_compute. split; [destruct i; discriminate|].
      change (N.compare i 8 = Lt). apply N.compare_lt_iff. exact H.
    + eexists. split; [right; left; reflexivity|]. unfold f_off, f_endp, f_off. cbn [f_fo f_data].
      change (len [9; 10; 11]) with 3. lia.
Qed.

(* ==== round3 c11cut begin ==== *)
(* ======================================================================
   The FRAMES of a cut reassemble (audit round 3, top-12 item 6).
   Defrag/CutFrames.v builds, from the wire formats alone, the frame that carries one fragment f
   (offset field, more-fragments flag, data):
     frame_v4 l h f = 12 MAC octets ++ 0..3 IEEE 802.1Q tags (any of the three TPIDs, any TCI) ++
                      0x0800 ++ RFC 791 header (IHL 5; TOS, DF, TTL, protocol <> 51, checksum,
                      addresses, identification free; total length, MF and offset from f) ++ data
     frame_v6 l h f = ... ++ 0x86DD ++ RFC 8200 header (traffic class, flow label, hop limit,
                      addresses free; payload length from f; next header 44) ++ fragment header
                      (next header not an extension header, reserved bits free, offset and M
                      from f, identification) ++ data
   Restrictions of the builders (not of the crate): no IPv4 options, no MACsec SecTAG, the IPv6
   fragment header directly behind the IPv6 header, IPv4 protocol <> 51 / IPv6 next header not
   0, 43, 44, 51, 60 (the payload of a fragment is not parsed further).
   ====================================================================== *)
From EP Require Import Defrag.CutFrames Defrag.CutFramesProofs.

(* the IPv4 frame of ANY fragment f (13 bit offset, 20 + length <= 65535, MF set or offset <> 0) is,
   by the reference decoder, a fragment with wire id (VIDs of the tags, addresses, identification,
   protocol, channel) carrying exactly f *)
Theorem C11_frame_v4_decodes : forall l h f c,
  link_ok l -> v4_ok h -> fits_v4 f -> is_fragmenting f = true ->
  exists w, wire_frag_of EEthernet (frame_v4 l h f) c = Some w /\
    wf_id w = id_v4 l h c /\ wf_v4 w = true /\ frag_of_wire (frame_v4 l h f) w = f.
Proof. exact frame_v4_decodes. Qed.
Print Assumptions C11_frame_v4_decodes.

(* ... and the MODEL of the crate (SlicedPacket::from_ethernet, the key extraction at the start of
   process_sliced_packet, the packet handed to the pool) decodes it to the same id and to f *)
Theorem C11_frame_v4_model : forall l h f c,
  link_ok l -> v4_ok h -> fits_v4 f -> is_fragmenting f = true ->
  exists p k, slice_with EEthernet (frame_v4 l h f) = Ok p /\ frag_key_of p c = Ok (Some k) /\
    pkt_of_key k = mkPkt (encode_id (id_v4 l h c)) true (v4_proto h) f /\
    forall pl ts, process_sliced_packet pl p ts c =
                  Ok (process pl (mkPkt (encode_id (id_v4 l h c)) true (v4_proto h) f) ts).
Proof. exact frame_v4_model. Qed.
Print Assumptions C11_frame_v4_model.

(* the same for IPv6 with a fragment extension header *)
Theorem C11_frame_v6_decodes : forall l h f c,
  link_ok l -> v6_ok h -> fits_v6 f -> is_fragmenting f = true ->
  exists w, wire_frag_of EEthernet (frame_v6 l h f) c = Some w /\
    wf_id w = id_v6 l h c /\ wf_v4 w = false /\ frag_of_wire (frame_v6 l h f) w = f.
Proof. exact frame_v6_decodes. Qed.
Print Assumptions C11_frame_v6_decodes.

(* every payload P <= 65535, every way of cutting it at multiples of 8 (`sizes`, at least two
   non-trivial pieces: 0 < sumN sizes), every history `s` of received frames in which the frames of
   datagram i are pieces of the cut -- in any order, any piece any number of times, each frame with
   its own MACs / PCP / DEI / TTL / TOS / checksum / hop limit / flow label, IPv4 or IPv6 frames
   (sched_ok: only the key fields are shared) -- interleaved with ANY other operations that are no
   fragments of i (frames of other datagrams, unfragmented packets, garbage, buffer returns):
   through slicing, key extraction and the pool model, nothing is returned for i while the pieces
   delivered so far do not cover P, and the frame that delivers the last missing byte is answered
   with P (protocol number of i), once.  No hypothesis about decoding is left: this discharges the
   `frag_of P` hypothesis of C11_packets_complete. *)
Theorem C11_cut_frames_reassemble : forall P sizes i s pl js0 jl tl,
  len P <= 65535 -> sumN sizes * 8 <= len P -> 0 < sumN sizes ->
  Forall (sched_ok i (cut_at P 0 sizes)) s ->
  Defrag.Proofs.view (encode_id i) pl = None ->
  sched_js s = js0 ++ [(jl, tl)] ->
  (forall k, (k <= length js0)%nat ->
     ~ Covered P (map (piece (cut_at P 0 sizes)) (firstn k (map fst js0)))) ->
  Covered P (map (piece (cut_at P 0 sizes)) (map fst js0 ++ [jl])) ->
  exists tr, pk_trace pl (realize (cut_at P 0 sizes) s) = Ok tr /\
    answers_for (encode_id i) tr =
      map (fun _ => PNone) js0 ++ [PDone (fi_ipn i) (id_is_v4 (fi_ip i)) (map Some P)].
Proof. exact cut_frames_reassemble. Qed.
Print Assumptions C11_cut_frames_reassemble.

(* ---- non-vacuity ---- *)
(* VLAN 5 with PCP 3 / DEI 1, and VLAN 5 plain with other MACs; two headers that differ in TOS, DF,
   TTL and checksum but share addresses, identification 7 and protocol 17 *)
Definition cfL1 : eth_link := mkEthLink [7;8;9;10;11;12;1;2;3;4;5;6] [(33024, 28677)].
Definition cfL2 : eth_link := mkEthLink [12;11;10;9;8;7;6;5;4;3;2;1] [(33024, 5)].
Definition cfH1 : v4_fields := mkV4F 0 false 64 17 0 [10;0;0;1] [10;0;0;2] 7.
Definition cfH2 : v4_fields := mkV4F 184 true 3 17 4660 [10;0;0;1] [10;0;0;2] 7.

(* the builder reproduces the hand-written frame exA1 of the packet-step examples *)
Example C11_ex_frame_v4_bytes : frame_v4 cfL1 cfH1 (mkFrag 0 true [1;2;3;4;5;6;7;8]) = exA1.
Proof. vm_compute. reflexivity. Qed.

(* exP (19 octets) cut into 8 + 8 + 3; arrival order: piece 2, 1, 1 (duplicate), 0 -- with frames of
   datagram B, an unfragmented packet, a buffer return and garbage in between *)
Definition cfSched : list sched_item :=
  [SFrame4 cfL1 cfH1 3 2 1; SOther (KPacket EEthernet exB1 2 3); SFrame4 cfL2 cfH2 3 1 3;
   SOther (KPacket EEthernet exU 4 3); SFrame4 cfL1 cfH2 3 1 5; SOther (KReturn [Some 1]);
   SOther (KPacket EEthernet [1;2;3] 6 3); SFrame4 cfL2 cfH1 3 0 7].

Ltac cf_link := split; [reflexivity|split; [apply bytes_okb_spec; reflexivity|split;
  [cbn [length el_tags cfL1 cfL2]; repeat constructor|
   repeat constructor; cbn [fst snd]; try (left; reflexivity); reflexivity]]].
Ltac cf_v4 := repeat split; try reflexivity; try discriminate; try (apply bytes_okb_spec; reflexivity).
Ltac cf_frame4 :=
  split; [cf_link|split; [cf_v4|split; [vm_compute; reflexivity|split;
    [cbn [length cut_at]; repeat constructor|
     split; [vm_compute; reflexivity|split; [vm_compute; discriminate|apply bytes_okb_spec; vm_compute; reflexivity]]]]]].

Example C11_ex_cut_frames_hyp :
  len exP <= 65535 /\ sumN [1; 1] * 8 <= len exP /\ 0 < sumN [1; 1] /\
  Forall (sched_ok exIdA (cut_at exP 0 [1; 1])) cfSched /\
  Defrag.Proofs.view (encode_id exIdA) pool_new = None /\
  sched_js cfSched = [(2%nat, 1); (1%nat, 3); (1%nat, 5)] ++ [(0%nat, 7)] /\
  (forall k, (k <= 3)%nat ->
     ~ Covered exP (map (piece (cut_at exP 0 [1; 1])) (firstn k [2; 1; 1]%nat))) /\
  Covered exP (map (piece (cut_at exP 0 [1; 1])) ([2; 1; 1] ++ [0])%nat) /\
  pk_trace pool_new (realize (cut_at exP 0 [1; 1]) cfSched) =
    Ok [(Some (encode_id exIdA), PNone); (Some (encode_id exIdB), PNone); (Some (encode_id exIdA), PNone);
        (None, PNone); (Some (encode_id exIdA), PNone); (None, PNone); (None, PNone);
        (Some (encode_id exIdA), PDone 17 true (map Some exP))].
Proof.
  split; [vm_compute; discriminate|]. split; [vm_compute; discriminate|]. split; [reflexivity|].
  split.
  { repeat apply Forall_cons; try apply Forall_nil; cbn [sched_ok];
      try (apply foreignb_spec; vm_compute; reflexivity); cf_frame4. }
  split; [reflexivity|]. split; [reflexivity|]. split.
  { intros k Hk (_ & Hc). destruct (Hc 0) as (g & Hg & Hr & _); [vm_compute; reflexivity|].
    destruct k as [|[|[|[|k]]]]; [| | | |lia]; cbn [firstn map In] in Hg;
      repeat (destruct Hg as [<-|Hg]; [revert Hr; vm_compute; intros Hr; exact (Hr eq_refl)|]); destruct Hg. }
  split; [|vm_compute; reflexivity].
  assert (E : map (piece (cut_at exP 0 [1; 1])) ([2; 1; 1] ++ [0])%nat =
              [mkFrag 2 false [17;18;19]; mkFrag 1 true [9;10;11;12;13;14;15;16];
               mkFrag 1 true [9;10;11;12;13;14;15;16]; mkFrag 0 true [1;2;3;4;5;6;7;8]])
    by (vm_compute; reflexivity).
  rewrite E. split.
  - eexists. split; [left; reflexivity|reflexivity].
  - intros i Hi. change (len exP) with 19 in Hi.
    destruct (N.ltb_spec i 8); [|destruct (N.ltb_spec i 16)].
    + eexists. split; [right; right; right; left; reflexivity|]. unfold f_off, f_endp, f_off. cbn [f_fo f_data].
      change (len [1;2;3;4;5;6;7;8]) with 8. lia.
    + eexists. split; [right; left; reflexivity|]. unfold f_off, f_endp, f_off. cbn [f_fo f_data].
      change (len [9;10;11;12;13;14;15;16]) with 8. lia.
    + eexists. split; [left; reflexivity|]. unfold f_off, f_endp, f_off. cbn [f_fo f_data].
      change (len [17;18;19]) with 3. lia.
Qed.

(* IPv6: traffic class 0xAB, flow label 0xCDEF1, identification 0x01020304, reserved bits set; the
   two frames of exP cut into 16 + 3, last piece first *)
Definition cfL0 : eth_link := mkEthLink [7;8;9;10;11;12;1;2;3;4;5;6] [].
Definition cfH6 : v6_fields :=
  mkV6F 171 843505 9 17 [32;1;13;184;0;0;0;0;0;0;0;0;0;0;0;1] [32;1;13;184;0;0;0;0;0;0;0;0;0;0;0;2]
        16909060 255 3.
Example C11_ex_cut_frames_v6 :
  link_ok cfL0 /\ v6_ok cfH6 /\ Forall fits_v6 (cut_at exP 0 [2]) /\
  wire_frag_of EEthernet (frame_v6 cfL0 cfH6 (piece (cut_at exP 0 [2]) 1)) 0 =
    Some (mkWireFrag (id_v6 cfL0 cfH6 0) 2 false (62, 3) false) /\
  pk_trace pool_new (realize (cut_at exP 0 [2]) [SFrame6 cfL0 cfH6 0 1 1; SFrame6 cfL0 cfH6 0 0 2]) =
    Ok [(Some (encode_id (id_v6 cfL0 cfH6 0)), PNone);
        (Some (encode_id (id_v6 cfL0 cfH6 0)), PDone 17 false (map Some exP))].
Proof.
  split; [split; [reflexivity|split; [apply bytes_okb_spec; reflexivity|split; [cbn; lia|constructor]]]|].
  split; [repeat split; try reflexivity; try discriminate; apply bytes_okb_spec; reflexivity|].
  split.
  { repeat constructor; try (vm_compute; reflexivity); try (vm_compute; discriminate);
      apply bytes_okb_spec; vm_compute; reflexivity. }
  split; vm_compute; reflexivity.
Qed.
(* the same with the deliveries given by piece INDEX: all pieces non-empty; the frames of datagram i
   arrive as ANY list over the indices 0 .. length sizes -- any permutation, any piece repeated any
   number of times -- whose last element jl is the one index that had not been delivered before:
   PNone for every earlier frame, P for that one *)
Theorem C11_cut_frames_any_order : forall P sizes i s pl js0 jl tl,
  len P <= 65535 -> sumN sizes * 8 <= len P -> sizes <> [] -> Forall (fun n => 0 < n) sizes ->
  Forall (sched_ok i (cut_at P 0 sizes)) s ->
  Defrag.Proofs.view (encode_id i) pl = None ->
  sched_js s = js0 ++ [(jl, tl)] ->
  ~ In jl (map fst js0) ->
  (forall j, (j <= length sizes)%nat -> In j (map fst js0 ++ [jl])) ->
  exists tr, pk_trace pl (realize (cut_at P 0 sizes) s) = Ok tr /\
    answers_for (encode_id i) tr =
      map (fun _ => PNone) js0 ++ [PDone (fi_ipn i) (id_is_v4 (fi_ip i)) (map Some P)].
Proof. exact cut_frames_any_order. Qed.
Print Assumptions C11_cut_frames_any_order.

Example C11_ex_cut_frames_any_order_hyp :
  [1; 1] <> [] /\ Forall (fun n => 0 < n) [1; 1] /\
  sched_js cfSched = [(2%nat, 1); (1%nat, 3); (1%nat, 5)] ++ [(0%nat, 7)] /\
  ~ In 0%nat (map fst [(2%nat, 1); (1%nat, 3); (1%nat, 5)]) /\
  (forall j, (j <= length [1; 1])%nat -> In j (map fst [(2%nat, 1); (1%nat, 3); (1%nat, 5)] ++ [0%nat])).
Proof.
  split; [discriminate|]. split; [repeat constructor|]. split; [reflexivity|]. split.
  - cbn [map fst In]. intros [H|[H|[H|[]]]]; discriminate.
  - intros j Hj. cbn [length] in Hj. cbn [map fst app In].
    destruct j as [|[|[|j]]]; [right; right; right; left; reflexivity|right; left; reflexivity|left; reflexivity|lia].
Qed.
(* ==== round3 c11cut end ==== *)
