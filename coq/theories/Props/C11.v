(* Props/C11.v -- property C11: fragments reassemble to the original payload in
   any arrival order.  Only statements; every proof is `exact <lemma>`.
   Spec = Defrag/Spec.v (reassembly as a partial map offset -> byte + optional
   end), Model = Defrag/Model.v (IpFragRange, IpDefragBuf, IpDefragPool). *)
From EP Require Import Base.Bytes Defrag.Spec Defrag.Model Defrag.Proofs.
Local Open Scope N_scope.

(* ---- the invariant of IpDefragBuf: sections well formed, pairwise neither
   overlapping nor touching; a byte of `data` is written (Some) exactly when a
   section covers it; data length and u16 bounds as the code maintains them.
   Established by new, kept by every successful add, and (model_step) an
   erroneous add leaves the buffer as it was: every history, F8 included. ---- *)
Theorem C11_inv_new : forall ipn d s, Inv (buf_new ipn d s).
Proof. exact Inv_new. Qed.
Print Assumptions C11_inv_new.

Theorem C11_inv_add : forall b f b', Inv b -> add b f = AddOk b' -> Inv b'.
Proof. exact add_preserves_Inv. Qed.
Print Assumptions C11_inv_add.

Theorem C11_inv_reachable : forall h b, Inv b -> Inv (model_run b h).
Proof. exact model_run_Inv. Qed.
Print Assumptions C11_inv_reachable.

(* the slice `data[off..off+len]` and the unsafe `set_len(end)` are always in range *)
Theorem C11_no_panic : forall b f, add b f <> AddPanic.
Proof. exact add_never_panics. Qed.
Print Assumptions C11_no_panic.

(* ---- refinement: outside the known class F8 the buffer answers every delivery
   of every history exactly like the Spec (verdict, completeness, payload) ---- *)
Theorem C11_refines : forall h ipn d s, ~ KnownClass h ->
  model_trace (buf_new ipn d s) h = spec_trace spec_new h.
Proof. exact refines. Qed.
Print Assumptions C11_refines.

(* ---- any order: P any payload up to 65535 bytes, h any delivery list made of
   fragments of P (any cut at multiples of 8, any overlapping re-cut, any
   permutation, any duplicates); every prefix of such a list is such a list,
   so "complete exactly from the first delivery on that completes the cover,
   never before" is the first conjunct applied to the prefixes of h ---- *)
Theorem C11_any_order : forall P h ipn d0 s0, len P <= 65535 -> Forall (frag_of P) h ->
  let b := model_run (buf_new ipn d0 s0) h in
  (is_complete b = true <-> Covered P h) /\
  (is_complete b = true -> b_data b = map Some P) /\
  Forall (fun o : obs => fst (fst o) = VOk) (model_trace (buf_new ipn d0 s0) h) /\
  ~ KnownClass h.
Proof. exact any_order. Qed.
Print Assumptions C11_any_order.

Theorem C11_any_order_prefix : forall P h k ipn d0 s0, len P <= 65535 -> Forall (frag_of P) h ->
  let b := model_run (buf_new ipn d0 s0) (firstn k h) in
  (is_complete b = true <-> Covered P (firstn k h)) /\
  (is_complete b = true -> b_data b = map Some P).
Proof. exact any_order_prefix. Qed.
Print Assumptions C11_any_order_prefix.

(* the same for an explicit cut: sizes = lengths of the non-final fragments in
   units of 8 bytes; delivering any list over the fragments of the cut *)
Theorem C11_cut_any_order : forall P sizes h ipn d0 s0, len P <= 65535 -> sumN sizes * 8 <= len P ->
  (forall f, In f h -> In f (cut_at P 0 sizes)) ->
  let b := model_run (buf_new ipn d0 s0) h in
  (is_complete b = true <-> Covered P h) /\
  (is_complete b = true -> b_data b = map Some P) /\
  ((forall f, In f (cut_at P 0 sizes) -> In f h) -> is_complete b = true).
Proof. exact cut_any_order. Qed.
Print Assumptions C11_cut_any_order.

(* ---- no leak: a completed buffer holds no byte that this datagram did not
   write -- every history, the known class included ---- *)
Theorem C11_no_leak : forall h ipn d s,
  let b := model_run (buf_new ipn d s) h in
  is_complete b = true -> no_None (b_data b).
Proof. exact no_leak. Qed.
Print Assumptions C11_no_leak.

(* ---- rejects: the documented error, buffer unchanged ---- *)
Theorem C11_reject_toobig : forall b f, 65535 < f_endp f ->
  model_step b f = (VTooBig (f_fo f) (len (f_data f)), b).
Proof. exact reject_toobig. Qed.
Print Assumptions C11_reject_toobig.

Theorem C11_reject_unaligned : forall b f,
  f_endp f <= 65535 -> f_mf f = true -> len (f_data f) mod 8 <> 0 ->
  model_step b f = (VUnaligned (f_fo f) (len (f_data f)), b).
Proof. exact reject_unaligned. Qed.
Print Assumptions C11_reject_unaligned.

Theorem C11_reject_conflict : forall b f prev,
  f_endp f <= 65535 -> (f_mf f = true -> len (f_data f) mod 8 = 0) ->
  b_end b = Some prev -> (prev < f_endp f \/ (f_mf f = false /\ f_endp f <> prev)) ->
  model_step b f = (VConflict prev (f_endp f), b).
Proof. exact reject_conflict. Qed.
Print Assumptions C11_reject_conflict.

(* nothing else is rejected *)
Theorem C11_accept : forall b f, accepts b f -> exists b', model_step b f = (VOk, b').
Proof. exact accept_ok. Qed.
Print Assumptions C11_accept.

(* The fourth reject of the Spec -- a final fragment that ends below data that
   was already accepted (VLateEnd) -- is NOT what the code does: finding F8.
     full statement (refuted):  forall h, model_trace new h = spec_trace spec_new h
   C11_refines above is that statement outside KnownClass; the witness: *)
Definition f8_first : frag := mkFrag 0 true [0;1;2;3;4;5;6;7;8;9;10;11;12;13;14;15].
Definition f8_second : frag := mkFrag 1 false [170;187;204;221].

Theorem C11_refines_refuted :
  KnownClass [f8_first; f8_second] /\
  model_trace (buf_new 17 [] []) [f8_first; f8_second] <> spec_trace spec_new [f8_first; f8_second] /\
  (* accepted, complete, 12 bytes *)
  map (fun o : obs => (fst (fst o), snd (fst o))) (model_trace (buf_new 17 [] []) [f8_first; f8_second])
    = [(VOk, false); (VOk, true)] /\
  option_map (@length _) (snd (last (model_trace (buf_new 17 [] []) [f8_first; f8_second]) (VOk, false, None)))
    = Some 12%nat /\
  (* the same two fragments in the other order: rejected *)
  map (fun o : obs => fst (fst o)) (model_trace (buf_new 17 [] []) [f8_second; f8_first])
    = [VOk; VConflict 12 16].
Proof. exact f8_witness. Qed.
Print Assumptions C11_refines_refuted.

(* ---- the pool ---- *)
(* isolation: the answers to the deliveries of one stream id inside any
   interleaving with deliveries for other ids and buffer returns are the answers
   that id gets alone *)
Theorem C11_isolation : forall ops p id,
  results_for id (pool_trace p ops) = stream_trace (view id p) (for_id id ops).
Proof. exact isolation. Qed.
Print Assumptions C11_isolation.

(* one stream, fragments of P (every one with the more-fragments flag or a
   non-zero offset, otherwise the pool passes it through): nothing is returned
   while the delivered fragments do not cover P ... *)
Theorem C11_pool_never_early : forall P, len P <= 65535 -> forall ks,
  (forall kt, In kt ks -> pkt_ok P kt) ->
  (forall j, (j <= length ks)%nat -> ~ Covered P (firstn j (frags_of ks))) ->
  stream_trace None ks = map (fun _ => PNone) ks.
Proof. exact pool_never_early. Qed.
Print Assumptions C11_pool_never_early.

(* ... the delivery that completes the cover returns P with the packet's ip
   number, and the stream is released (the next packet of the id starts afresh) *)
Theorem C11_pool_completes : forall P, len P <= 65535 -> forall ks k ts,
  (forall kt, In kt ks -> pkt_ok P kt) -> pkt_ok P (k, ts) ->
  (forall j, (j <= length ks)%nat -> ~ Covered P (firstn j (frags_of ks))) ->
  Covered P (frags_of ks ++ [k_frag k]) ->
  stream_trace None (ks ++ [(k, ts)]) =
    map (fun _ => PNone) ks ++ [PDone (k_ipn k) (k_v4 k) (map Some P)] /\
  stream_run None (ks ++ [(k, ts)]) = None.
Proof. exact pool_completes. Qed.
Print Assumptions C11_pool_completes.

(* unfragmented packets pass through: no answer, no state *)
Theorem C11_passthrough : forall p k ts, is_fragmenting (k_frag k) = false ->
  process p k ts = (PNone, p).
Proof. exact passthrough. Qed.
Print Assumptions C11_passthrough.

(* whatever the history (reused buffers, conflicting fragments, F8 included):
   a payload handed out by the pool contains no unwritten / stale byte and the
   pool never reaches the out-of-range slice *)
Theorem C11_pool_no_leak : forall ops id,
  Forall res_ok (results_for id (pool_trace pool_new ops)).
Proof. exact pool_no_leak. Qed.
Print Assumptions C11_pool_no_leak.

(* ---- non-vacuity ---- *)
Definition exP : bytes := [1;2;3;4;5;6;7;8;9;10;11;12;13;14;15;16;17;18;19].
Definition exCut : list frag := cut_at exP 0 [1; 1].

Example C11_ex_cut : exCut = [mkFrag 0 true [1;2;3;4;5;6;7;8]; mkFrag 1 true [9;10;11;12;13;14;15;16];
                              mkFrag 2 false [17;18;19]].
Proof. vm_compute. reflexivity. Qed.

(* hypotheses of C11_any_order hold for a reversed delivery with a duplicate *)
Example C11_ex_hyp : len exP <= 65535 /\ Forall (frag_of exP) (nth 2 exCut f8_first :: nth 1 exCut f8_first :: nth 1 exCut f8_first :: nth 0 exCut f8_first :: nil).
Proof.
  split; [vm_compute; discriminate|].
  pose proof (cut_frag_of exP [1; 1] 0) as H. rewrite Forall_forall in H.
  assert (Hb : (0 + sumN [1; 1]) * 8 <= len exP) by (vm_compute; discriminate).
  repeat constructor; apply H; try exact Hb; vm_compute; tauto.
Qed.

Example C11_ex_trace :
  model_trace (buf_new 17 [Some 255] [mkRange 0 1])
    [nth 2 exCut f8_first; nth 1 exCut f8_first; nth 1 exCut f8_first; nth 0 exCut f8_first]
  = [(VOk, false, None); (VOk, false, None); (VOk, false, None); (VOk, true, Some (map Some exP))].
Proof. vm_compute. reflexivity. Qed.

(* hypotheses of the three reject theorems *)
Example C11_ex_rejects :
  let b := model_run (buf_new 17 [] []) [mkFrag 2 false [17;18;19]] in
  model_step b (mkFrag 8191 false [1;2;3;4;5;6;7;8]) = (VTooBig 8191 8, b) /\
  model_step b (mkFrag 0 true [1;2;3]) = (VUnaligned 0 3, b) /\
  model_step b (mkFrag 2 true [1;2;3;4;5;6;7;8]) = (VConflict 19 24, b) /\
  model_step b (mkFrag 2 false [1;2]) = (VConflict 19 18, b).
Proof. vm_compute. repeat split; reflexivity. Qed.

(* two interleaved streams through the pool model *)
Example C11_ex_pool :
  let k id f := mkPkt [id] true 17 f in
  map snd (pool_trace pool_new
    [ODeliver (k 1 (mkFrag 1 false [9])) 1; ODeliver (k 2 (mkFrag 0 true [1;2;3;4;5;6;7;8])) 1;
     ODeliver (k 2 (mkFrag 1 false [7])) 2; ODeliver (k 1 (mkFrag 0 true [8;7;6;5;4;3;2;1])) 2])
  = [PNone; PNone; PDone 17 true (map Some [1;2;3;4;5;6;7;8;7]); PDone 17 true (map Some [8;7;6;5;4;3;2;1;9])].
Proof. vm_compute. reflexivity. Qed.
