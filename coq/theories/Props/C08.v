(* Props/C08.v -- property C08: every header value survives encode -> decode.
   Only statements; every proof is `exact <lemma>`.
   Per type T:  C08_T_ser_agree, C08_T_dec_enc, C08_T_enc_dec (+ C08_T_spec: the
   serialiser writes the RFC layout of Roundtrip/Spec.v). *)
From EP Require Import Base.Bytes Roundtrip.Common Roundtrip.Spec.
From EP Require Roundtrip.Tcp Roundtrip.TcpProofs.
Local Open Scope N_scope.

(* ------------------------------------------------------------------ TcpHeader *)
Module TCP.
Import Roundtrip.Tcp Roundtrip.TcpProofs.

(* to_bytes and write (to a Vec that already holds `out`) produce the same bytes,
   header_len many.  TcpHeader has no write_to_slice. *)
Theorem C08_Tcp_ser_agree : forall h out, wf_tcp h = true ->
  exists e, to_bytes h = Some e /\ write out h = Some (out ++ e) /\ len e = header_len h.
Proof. exact tcp_ser_agree. Qed.
Print Assumptions C08_Tcp_ser_agree.

(* every well-formed value (all field values, every options length 0,4..40, any
   stale bytes in the buffer behind `len`), followed by any bytes `rest`:
   from_slice and read return the value (buffer zeroed behind len = what
   PartialEq ignores) and exactly `rest` *)
Theorem C08_Tcp_dec_enc : forall h rest, wf_tcp h = true ->
  exists e, to_bytes h = Some e /\ from_slice (e ++ rest) = Ok (norm h, rest)
            /\ read (e ++ rest) = Ok (norm h, rest) /\ tcp_eqb (norm h) h = true.
Proof. exact tcp_dec_enc. Qed.
Print Assumptions C08_Tcp_dec_enc.

(* every accepted byte string: the value is well-formed, re-encoding reproduces the
   consumed bytes outside the reserved bits 1-3 of byte 12, decoding again gives
   the same value *)
Theorem C08_Tcp_enc_dec : forall bs h rest, bytes_ok bs -> from_slice bs = Ok (h, rest) ->
  wf_tcp h = true /\ norm h = h /\
  exists e, to_bytes h = Some e /\ bs = take (header_len h) bs ++ rest
            /\ agree (keep_mask (header_len h)) e (take (header_len h) bs)
            /\ from_slice e = Ok (h, []).
Proof. exact tcp_enc_dec. Qed.
Print Assumptions C08_Tcp_enc_dec.

Theorem C08_Tcp_spec : forall h, wf_tcp h = true ->
  to_bytes h = Some (tcp_layout (source_port h) (destination_port h) (sequence_number h)
    (acknowledgment_number h) (ns h) (cwr h) (ece h) (urg h) (ack h) (psh h) (rst h) (syn h) (fin h)
    (window_size h) (checksum h) (urgent_pointer h) (take (o_len (options h)) (o_buf (options h)))).
Proof. exact tcp_spec. Qed.
Print Assumptions C08_Tcp_spec.

(* non-vacuity: all-ones fields, 40 option bytes, stale buffer *)
Definition ex_max : TcpHeader :=
  {| source_port := 65535; destination_port := 65535; sequence_number := 4294967295;
     acknowledgment_number := 4294967295; ns := true; fin := true; syn := true; rst := true;
     psh := true; ack := true; urg := true; ece := true; cwr := true; window_size := 65535;
     checksum := 65535; urgent_pointer := 65535;
     options := {| o_len := 40; o_buf := repeat 255 40 |} |}.
Definition ex_stale : TcpHeader :=
  {| source_port := 1; destination_port := 2; sequence_number := 3;
     acknowledgment_number := 4; ns := false; fin := false; syn := true; rst := false;
     psh := false; ack := false; urg := false; ece := false; cwr := false; window_size := 5;
     checksum := 6; urgent_pointer := 7;
     options := {| o_len := 4; o_buf := [1; 1; 1; 0] ++ repeat 170 36 |} |}.
Example C08_Tcp_ex_wf : wf_tcp ex_max = true /\ wf_tcp ex_stale = true.
Proof. split; vm_compute; reflexivity. Qed.
Example C08_Tcp_ex_bytes : to_bytes ex_stale =
  Some [0; 1; 0; 2; 0; 0; 0; 3; 0; 0; 0; 4; 96; 2; 0; 5; 0; 6; 0; 7; 1; 1; 1; 0].
Proof. vm_compute. reflexivity. Qed.
Example C08_Tcp_ex_dec : exists h,
  from_slice [0; 1; 0; 2; 0; 0; 0; 3; 0; 0; 0; 4; 110; 2; 0; 5; 0; 6; 0; 7; 1; 1; 1; 0; 9] = Ok (h, [9])
  /\ tcp_eqb h ex_stale = true.
Proof. eexists. split; vm_compute; reflexivity. Qed.
End TCP.
