(* Props/C08.v -- property C08: every header value survives encode -> decode.
   Only statements; every proof is `exact <lemma>`.
   Per type T:  C08_T_ser_agree, C08_T_dec_enc, C08_T_enc_dec (+ C08_T_spec: the
   serialiser writes the RFC layout of Roundtrip/Spec.v). *)
From EP Require Import Base.Bytes Roundtrip.Common Roundtrip.Spec.
From EP Require Roundtrip.Tcp Roundtrip.TcpProofs Roundtrip.Ipv4 Roundtrip.Ipv4Proofs.
From EP Require Checksum.Model.
From EP Require Roundtrip.Frag Roundtrip.FragProofs.
Local Open Scope N_scope.

(* ------------------------------------------------------------------ TcpHeader *)
Module TCP.
Import Roundtrip.Tcp Roundtrip.TcpProofs.

(* to_bytes and write (to a Vec that already holds `out`) produce the same bytes,
   header_len many.  TcpHeader has no write_to_slice. *)
Theorem C08_Tcp_ser_agree : forall h out, wf_tcp h = true ->
  exists e, to_bytes h = Some e /\ write out h = Some (out ++ e) /\ len e = header_len h.
Proof. exact tcp_ser_agree. Qed.
Print Assumptions C08_Tcp_ser_agree.

(* every well-formed value (all field values, every options length 0,4..40, any
   stale bytes in the buffer behind `len`), followed by any bytes `rest`:
   from_slice and read return the value (buffer zeroed behind len = what
   PartialEq ignores) and exactly `rest` *)
Theorem C08_Tcp_dec_enc : forall h rest, wf_tcp h = true ->
  exists e, to_bytes h = Some e /\ from_slice (e ++ rest) = Ok (norm h, rest)
            /\ read (e ++ rest) = Ok (norm h, rest) /\ tcp_eqb (norm h) h = true.
Proof. exact tcp_dec_enc. Qed.
Print Assumptions C08_Tcp_dec_enc.

(* every accepted byte string: the value is well-formed, re-encoding reproduces the
   consumed bytes outside the reserved bits 1-3 of byte 12, decoding again gives
   the same value *)
Theorem C08_Tcp_enc_dec : forall bs h rest, bytes_ok bs -> from_slice bs = Ok (h, rest) ->
  wf_tcp h = true /\ norm h = h /\
  exists e, to_bytes h = Some e /\ bs = take (header_len h) bs ++ rest
            /\ agree (keep_mask (header_len h)) e (take (header_len h) bs)
            /\ from_slice e = Ok (h, []).
Proof. exact tcp_enc_dec. Qed.
Print Assumptions C08_Tcp_enc_dec.

Theorem C08_Tcp_spec : forall h, wf_tcp h = true ->
  to_bytes h = Some (tcp_layout (source_port h) (destination_port h) (sequence_number h)
    (acknowledgment_number h) (ns h) (cwr h) (ece h) (urg h) (ack h) (psh h) (rst h) (syn h) (fin h)
    (window_size h) (checksum h) (urgent_pointer h) (take (o_len (options h)) (o_buf (options h)))).
Proof. exact tcp_spec. Qed.
Print Assumptions C08_Tcp_spec.

(* non-vacuity: all-ones fields, 40 option bytes, stale buffer *)
Definition ex_max : TcpHeader :=
  {| source_port := 65535; destination_port := 65535; sequence_number := 4294967295;
     acknowledgment_number := 4294967295; ns := true; fin := true; syn := true; rst := true;
     psh := true; ack := true; urg := true; ece := true; cwr := true; window_size := 65535;
     checksum := 65535; urgent_pointer := 65535;
     options := {| o_len := 40; o_buf := repeat 255 40 |} |}.
Definition ex_stale : TcpHeader :=
  {| source_port := 1; destination_port := 2; sequence_number := 3;
     acknowledgment_number := 4; ns := false; fin := false; syn := true; rst := false;
     psh := false; ack := false; urg := false; ece := false; cwr := false; window_size := 5;
     checksum := 6; urgent_pointer := 7;
     options := {| o_len := 4; o_buf := [1; 1; 1; 0] ++ repeat 170 36 |} |}.
Example C08_Tcp_ex_wf : wf_tcp ex_max = true /\ wf_tcp ex_stale = true.
Proof. split; vm_compute; reflexivity. Qed.
Example C08_Tcp_ex_bytes : to_bytes ex_stale =
  Some [0; 1; 0; 2; 0; 0; 0; 3; 0; 0; 0; 4; 96; 2; 0; 5; 0; 6; 0; 7; 1; 1; 1; 0].
Proof. vm_compute. reflexivity. Qed.
Example C08_Tcp_ex_dec : exists h,
  from_slice [0; 1; 0; 2; 0; 0; 0; 3; 0; 0; 0; 4; 110; 2; 0; 5; 0; 6; 0; 7; 1; 1; 1; 0; 9] = Ok (h, [9])
  /\ tcp_eqb h ex_stale = true.
Proof. eexists. split; vm_compute; reflexivity. Qed.
End TCP.

(* ------------------------------------------------------------------ Ipv4Header *)
Module IPV4.
Import Checksum.Model Roundtrip.Ipv4 Roundtrip.Ipv4Proofs.

(* to_bytes and write_raw agree (Ipv4Header has no write_to_slice) *)
Theorem C08_Ipv4_ser_agree : forall h out, wf_ip4 h = true ->
  exists e, ip4_to_bytes h = Some e /\ ip4_write_raw out h = Some (out ++ e) /\ len e = ip4_header_len h.
Proof. exact ip4_ser_agree. Qed.
Print Assumptions C08_Ipv4_ser_agree.

(* write() deliberately differs: it stores calc_header_checksum() instead of the
   header_checksum field; it equals to_bytes exactly when the field is consistent *)
Theorem C08_Ipv4_write_recomputes : forall e h out, wf_ip4 h = true ->
  exists ck, ip4_calc_checksum e h = Some ck /\
    (ck < 65536 -> exists b, ip4_to_bytes (ip4_set_checksum h ck) = Some b /\ ip4_write e out h = Some (out ++ b)) /\
    (i4_header_checksum h = ck -> exists b, ip4_to_bytes h = Some b /\ ip4_write e out h = Some (out ++ b)).
Proof. exact ip4_write_recomputes. Qed.
Print Assumptions C08_Ipv4_write_recomputes.

Theorem C08_Ipv4_dec_enc : forall h rest, wf_ip4 h = true ->
  exists e, ip4_to_bytes h = Some e /\ ip4_from_slice (e ++ rest) = Ok (ip4_norm h, rest)
            /\ ip4_read (e ++ rest) = Ok (ip4_norm h, rest) /\ ip4_eqb (ip4_norm h) h = true.
Proof. exact ip4_dec_enc. Qed.
Print Assumptions C08_Ipv4_dec_enc.

(* reserved: bit 7 of byte 6 *)
Theorem C08_Ipv4_enc_dec : forall bs h rest, bytes_ok bs -> ip4_from_slice bs = Ok (h, rest) ->
  wf_ip4 h = true /\ ip4_norm h = h /\
  exists e, ip4_to_bytes h = Some e /\ bs = take (ip4_header_len h) bs ++ rest
            /\ agree (ip4_keep_mask (ip4_header_len h)) e (take (ip4_header_len h) bs)
            /\ ip4_from_slice e = Ok (h, []).
Proof. exact ip4_enc_dec. Qed.
Print Assumptions C08_Ipv4_enc_dec.

Theorem C08_Ipv4_spec : forall h, wf_ip4 h = true ->
  ip4_to_bytes h = Some (ipv4_layout (i4_dscp h) (i4_ecn h) (i4_total_len h) (i4_identification h)
    (i4_dont_fragment h) (i4_more_fragments h) (i4_fragment_offset h) (i4_time_to_live h) (i4_protocol h)
    (i4_header_checksum h) (i4_source h) (i4_destination h)
    (take (i4o_len (i4_options h)) (i4o_buf (i4_options h)))).
Proof. exact ip4_spec. Qed.
Print Assumptions C08_Ipv4_spec.

Definition ex_max : Ipv4Header :=
  {| i4_dscp := 63; i4_ecn := 3; i4_total_len := 65535; i4_identification := 65535;
     i4_dont_fragment := true; i4_more_fragments := true; i4_fragment_offset := 8191;
     i4_time_to_live := 255; i4_protocol := 255; i4_header_checksum := 65535;
     i4_source := [255; 255; 255; 255]; i4_destination := [255; 255; 255; 255];
     i4_options := {| i4o_len := 40; i4o_buf := repeat 255 40 |} |}.
Definition ex_stale : Ipv4Header :=
  {| i4_dscp := 1; i4_ecn := 2; i4_total_len := 24; i4_identification := 3;
     i4_dont_fragment := false; i4_more_fragments := true; i4_fragment_offset := 4660;
     i4_time_to_live := 64; i4_protocol := 6; i4_header_checksum := 0;
     i4_source := [10; 0; 0; 1]; i4_destination := [10; 0; 0; 2];
     i4_options := {| i4o_len := 4; i4o_buf := [1; 1; 1; 0] ++ repeat 170 36 |} |}.
Example C08_Ipv4_ex_wf : wf_ip4 ex_max = true /\ wf_ip4 ex_stale = true.
Proof. split; vm_compute; reflexivity. Qed.
Example C08_Ipv4_ex_bytes : ip4_to_bytes ex_stale =
  Some [70; 6; 0; 24; 0; 3; 50; 52; 64; 6; 0; 0; 10; 0; 0; 1; 10; 0; 0; 2; 1; 1; 1; 0].
Proof. vm_compute. reflexivity. Qed.
Example C08_Ipv4_ex_dec : exists h,
  ip4_from_slice [70; 6; 0; 24; 0; 3; 178; 52; 64; 6; 0; 0; 10; 0; 0; 1; 10; 0; 0; 2; 1; 1; 1; 0; 9] = Ok (h, [9])
  /\ ip4_eqb h ex_stale = true.
Proof. eexists. split; vm_compute; reflexivity. Qed.
End IPV4.

(* ------------------------------------------------------------------ Ipv6FragmentHeader *)
Module FRAG.
Import Roundtrip.Frag Roundtrip.FragProofs.

(* write = write_all(to_bytes); fixed length 8 (no write_to_slice) *)
Theorem C08_Frag_ser_agree : forall h out,
  frag_write out h = out ++ frag_to_bytes h /\ len (frag_to_bytes h) = frag_header_len h.
Proof. exact frag_ser_agree. Qed.
Print Assumptions C08_Frag_ser_agree.

Theorem C08_Frag_dec_enc : forall h rest, wf_frag h = true ->
  frag_from_slice (frag_to_bytes h ++ rest) = Ok (h, rest) /\ frag_read (frag_to_bytes h ++ rest) = Ok (h, rest).
Proof. exact frag_dec_enc. Qed.
Print Assumptions C08_Frag_dec_enc.

(* reserved: byte 1 and bits 1-2 of byte 3 *)
Theorem C08_Frag_enc_dec : forall bs h rest, bytes_ok bs -> frag_from_slice bs = Ok (h, rest) ->
  wf_frag h = true /\ bs = take 8 bs ++ rest
  /\ agree frag_keep_mask (frag_to_bytes h) (take 8 bs)
  /\ frag_from_slice (frag_to_bytes h) = Ok (h, []).
Proof. exact frag_enc_dec. Qed.
Print Assumptions C08_Frag_enc_dec.

Theorem C08_Frag_spec : forall h, wf_frag h = true ->
  frag_to_bytes h = frag_layout (fr_next_header h) (fr_fragment_offset h) (fr_more_fragments h) (fr_identification h).
Proof. exact frag_spec. Qed.
Print Assumptions C08_Frag_spec.

Definition ex_max : Ipv6FragmentHeader :=
  {| fr_next_header := 255; fr_fragment_offset := 8191; fr_more_fragments := true;
     fr_identification := 4294967295 |}.
Example C08_Frag_ex_wf : wf_frag ex_max = true. Proof. vm_compute. reflexivity. Qed.
Example C08_Frag_ex_bytes : frag_to_bytes ex_max = [255; 0; 255; 249; 255; 255; 255; 255].
Proof. vm_compute. reflexivity. Qed.
Example C08_Frag_ex_dec : frag_from_slice [6; 170; 0; 15; 0; 0; 0; 1; 7] =
  Ok ({| fr_next_header := 6; fr_fragment_offset := 1; fr_more_fragments := true; fr_identification := 1 |}, [7]).
Proof. vm_compute. reflexivity. Qed.
End FRAG.
