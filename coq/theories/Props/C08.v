(* Props/C08.v -- property C08: every header value survives encode -> decode.
   Only statements; every proof is `exact <lemma>`.
   Per type T:  C08_T_ser_agree, C08_T_dec_enc, C08_T_enc_dec (+ C08_T_spec: the
   serialiser writes the RFC layout of Roundtrip/Spec.v). *)
From EP Require Import Base.Bytes Roundtrip.Common Roundtrip.Spec.
From EP Require Roundtrip.Tcp Roundtrip.TcpProofs Roundtrip.Ipv4 Roundtrip.Ipv4Proofs.
From EP Require Checksum.Model.
From EP Require Roundtrip.Frag Roundtrip.FragProofs.
Local Open Scope N_scope.

(* ------------------------------------------------------------------ TcpHeader *)
Module TCP.
Import Roundtrip.Tcp Roundtrip.TcpProofs.

(* to_bytes and write (to a Vec that already holds `out`) produce the same bytes,
   header_len many.  TcpHeader has no write_to_slice. *)
Theorem C08_Tcp_ser_agree : forall h out, wf_tcp h = true ->
  exists e, to_bytes h = Some e /\ write out h = Some (out ++ e) /\ len e = header_len h.
Proof. exact tcp_ser_agree. Qed.
Print Assumptions C08_Tcp_ser_agree.

(* every well-formed value (all field values, every options length 0,4..40, any
   stale bytes in the buffer behind `len`), followed by any bytes `rest`:
   from_slice and read return the value (buffer zeroed behind len = what
   PartialEq ignores) and exactly `rest` *)
Theorem C08_Tcp_dec_enc : forall h rest, wf_tcp h = true ->
  exists e, to_bytes h = Some e /\ from_slice (e ++ rest) = Ok (norm h, rest)
            /\ read (e ++ rest) = Ok (norm h, rest) /\ tcp_eqb (norm h) h = true.
Proof. exact tcp_dec_enc. Qed.
Print Assumptions C08_Tcp_dec_enc.

(* every accepted byte string: the value is well-formed, re-encoding reproduces the
   consumed bytes outside the reserved bits 1-3 of byte 12, decoding again gives
   the same value *)
Theorem C08_Tcp_enc_dec : forall bs h rest, bytes_ok bs -> from_slice bs = Ok (h, rest) ->
  wf_tcp h = true /\ norm h = h /\
  exists e, to_bytes h = Some e /\ bs = take (header_len h) bs ++ rest
            /\ agree (keep_mask (header_len h)) e (take (header_len h) bs)
            /\ from_slice e = Ok (h, []).
Proof. exact tcp_enc_dec. Qed.
Print Assumptions C08_Tcp_enc_dec.

Theorem C08_Tcp_spec : forall h, wf_tcp h = true ->
  to_bytes h = Some (tcp_layout (source_port h) (destination_port h) (sequence_number h)
    (acknowledgment_number h) (ns h) (cwr h) (ece h) (urg h) (ack h) (psh h) (rst h) (syn h) (fin h)
    (window_size h) (checksum h) (urgent_pointer h) (take (o_len (options h)) (o_buf (options h)))).
Proof. exact tcp_spec. Qed.
Print Assumptions C08_Tcp_spec.

(* non-vacuity: all-ones fields, 40 option bytes, stale buffer *)
Definition ex_max : TcpHeader :=
  {| source_port := 65535; destination_port := 65535; sequence_number := 4294967295;
     acknowledgment_number := 4294967295; ns := true; fin := true; syn := true; rst := true;
     psh := true; ack := true; urg := true; ece := true; cwr := true; window_size := 65535;
     checksum := 65535; urgent_pointer := 65535;
     options := {| o_len := 40; o_buf := repeat 255 40 |} |}.
Definition ex_stale : TcpHeader :=
  {| source_port := 1; destination_port := 2; sequence_number := 3;
     acknowledgment_number := 4; ns := false; fin := false; syn := true; rst := false;
     psh := false; ack := false; urg := false; ece := false; cwr := false; window_size := 5;
     checksum := 6; urgent_pointer := 7;
     options := {| o_len := 4; o_buf := [1; 1; 1; 0] ++ repeat 170 36 |} |}.
Example C08_Tcp_ex_wf : wf_tcp ex_max = true /\ wf_tcp ex_stale = true.
Proof. split; vm_compute; reflexivity. Qed.
Example C08_Tcp_ex_bytes : to_bytes ex_stale =
  Some [0; 1; 0; 2; 0; 0; 0; 3; 0; 0; 0; 4; 96; 2; 0; 5; 0; 6; 0; 7; 1; 1; 1; 0].
Proof. vm_compute. reflexivity. Qed.
Example C08_Tcp_ex_dec : exists h,
  from_slice [0; 1; 0; 2; 0; 0; 0; 3; 0; 0; 0; 4; 110; 2; 0; 5; 0; 6; 0; 7; 1; 1; 1; 0; 9] = Ok (h, [9])
  /\ tcp_eqb h ex_stale = true.
Proof. eexists. split; vm_compute; reflexivity. Qed.
End TCP.

(* ------------------------------------------------------------------ Ipv4Header *)
Module IPV4.
Import Checksum.Model Roundtrip.Ipv4 Roundtrip.Ipv4Proofs.

(* to_bytes and write_raw agree (Ipv4Header has no write_to_slice) *)
Theorem C08_Ipv4_ser_agree : forall h out, wf_ip4 h = true ->
  exists e, ip4_to_bytes h = Some e /\ ip4_write_raw out h = Some (out ++ e) /\ len e = ip4_header_len h.
Proof. exact ip4_ser_agree. Qed.
Print Assumptions C08_Ipv4_ser_agree.

(* write() deliberately differs: it stores calc_header_checksum() instead of the
   header_checksum field; it equals to_bytes exactly when the field is consistent *)
Theorem C08_Ipv4_write_recomputes : forall e h out, wf_ip4 h = true ->
  exists ck, ip4_calc_checksum e h = Some ck /\
    (ck < 65536 -> exists b, ip4_to_bytes (ip4_set_checksum h ck) = Some b /\ ip4_write e out h = Some (out ++ b)) /\
    (i4_header_checksum h = ck -> exists b, ip4_to_bytes h = Some b /\ ip4_write e out h = Some (out ++ b)).
Proof. exact ip4_write_recomputes. Qed.
Print Assumptions C08_Ipv4_write_recomputes.

Theorem C08_Ipv4_dec_enc : forall h rest, wf_ip4 h = true ->
  exists e, ip4_to_bytes h = Some e /\ ip4_from_slice (e ++ rest) = Ok (ip4_norm h, rest)
            /\ ip4_read (e ++ rest) = Ok (ip4_norm h, rest) /\ ip4_eqb (ip4_norm h) h = true.
Proof. exact ip4_dec_enc. Qed.
Print Assumptions C08_Ipv4_dec_enc.

(* reserved: bit 7 of byte 6 *)
Theorem C08_Ipv4_enc_dec : forall bs h rest, bytes_ok bs -> ip4_from_slice bs = Ok (h, rest) ->
  wf_ip4 h = true /\ ip4_norm h = h /\
  exists e, ip4_to_bytes h = Some e /\ bs = take (ip4_header_len h) bs ++ rest
            /\ agree (ip4_keep_mask (ip4_header_len h)) e (take (ip4_header_len h) bs)
            /\ ip4_from_slice e = Ok (h, []).
Proof. exact ip4_enc_dec. Qed.
Print Assumptions C08_Ipv4_enc_dec.

Theorem C08_Ipv4_spec : forall h, wf_ip4 h = true ->
  ip4_to_bytes h = Some (ipv4_layout (i4_dscp h) (i4_ecn h) (i4_total_len h) (i4_identification h)
    (i4_dont_fragment h) (i4_more_fragments h) (i4_fragment_offset h) (i4_time_to_live h) (i4_protocol h)
    (i4_header_checksum h) (i4_source h) (i4_destination h)
    (take (i4o_len (i4_options h)) (i4o_buf (i4_options h)))).
Proof. exact ip4_spec. Qed.
Print Assumptions C08_Ipv4_spec.

Definition ex_max : Ipv4Header :=
  {| i4_dscp := 63; i4_ecn := 3; i4_total_len := 65535; i4_identification := 65535;
     i4_dont_fragment := true; i4_more_fragments := true; i4_fragment_offset := 8191;
     i4_time_to_live := 255; i4_protocol := 255; i4_header_checksum := 65535;
     i4_source := [255; 255; 255; 255]; i4_destination := [255; 255; 255; 255];
     i4_options := {| i4o_len := 40; i4o_buf := repeat 255 40 |} |}.
Definition ex_stale : Ipv4Header :=
  {| i4_dscp := 1; i4_ecn := 2; i4_total_len := 24; i4_identification := 3;
     i4_dont_fragment := false; i4_more_fragments := true; i4_fragment_offset := 4660;
     i4_time_to_live := 64; i4_protocol := 6; i4_header_checksum := 0;
     i4_source := [10; 0; 0; 1]; i4_destination := [10; 0; 0; 2];
     i4_options := {| i4o_len := 4; i4o_buf := [1; 1; 1; 0] ++ repeat 170 36 |} |}.
Example C08_Ipv4_ex_wf : wf_ip4 ex_max = true /\ wf_ip4 ex_stale = true.
Proof. split; vm_compute; reflexivity. Qed.
Example C08_Ipv4_ex_bytes : ip4_to_bytes ex_stale =
  Some [70; 6; 0; 24; 0; 3; 50; 52; 64; 6; 0; 0; 10; 0; 0; 1; 10; 0; 0; 2; 1; 1; 1; 0].
Proof. vm_compute. reflexivity. Qed.
Example C08_Ipv4_ex_dec : exists h,
  ip4_from_slice [70; 6; 0; 24; 0; 3; 178; 52; 64; 6; 0; 0; 10; 0; 0; 1; 10; 0; 0; 2; 1; 1; 1; 0; 9] = Ok (h, [9])
  /\ ip4_eqb h ex_stale = true.
Proof. eexists. split; vm_compute; reflexivity. Qed.
End IPV4.

(* ------------------------------------------------------------------ Ipv6FragmentHeader *)
Module FRAG.
Import Roundtrip.Frag Roundtrip.FragProofs.

(* write = write_all(to_bytes); fixed length 8 (no write_to_slice) *)
Theorem C08_Frag_ser_agree : forall h out,
  frag_write out h = out ++ frag_to_bytes h /\ len (frag_to_bytes h) = frag_header_len h.
Proof. exact frag_ser_agree. Qed.
Print Assumptions C08_Frag_ser_agree.

Theorem C08_Frag_dec_enc : forall h rest, wf_frag h = true ->
  frag_from_slice (frag_to_bytes h ++ rest) = Ok (h, rest) /\ frag_read (frag_to_bytes h ++ rest) = Ok (h, rest).
Proof. exact frag_dec_enc. Qed.
Print Assumptions C08_Frag_dec_enc.

(* reserved: byte 1 and bits 1-2 of byte 3 *)
Theorem C08_Frag_enc_dec : forall bs h rest, bytes_ok bs -> frag_from_slice bs = Ok (h, rest) ->
  wf_frag h = true /\ bs = take 8 bs ++ rest
  /\ agree frag_keep_mask (frag_to_bytes h) (take 8 bs)
  /\ frag_from_slice (frag_to_bytes h) = Ok (h, []).
Proof. exact frag_enc_dec. Qed.
Print Assumptions C08_Frag_enc_dec.

Theorem C08_Frag_spec : forall h, wf_frag h = true ->
  frag_to_bytes h = frag_layout (fr_next_header h) (fr_fragment_offset h) (fr_more_fragments h) (fr_identification h).
Proof. exact frag_spec. Qed.
Print Assumptions C08_Frag_spec.

Definition ex_max : Ipv6FragmentHeader :=
  {| fr_next_header := 255; fr_fragment_offset := 8191; fr_more_fragments := true;
     fr_identification := 4294967295 |}.
Example C08_Frag_ex_wf : wf_frag ex_max = true. Proof. vm_compute. reflexivity. Qed.
Example C08_Frag_ex_bytes : frag_to_bytes ex_max = [255; 0; 255; 249; 255; 255; 255; 255].
Proof. vm_compute. reflexivity. Qed.
Example C08_Frag_ex_dec : frag_from_slice [6; 170; 0; 15; 0; 0; 0; 1; 7] =
  Ok ({| fr_next_header := 6; fr_fragment_offset := 1; fr_more_fragments := true; fr_identification := 1 |}, [7]).
Proof. vm_compute. reflexivity. Qed.
End FRAG.

(* ---- link/net types (extend-c08a) ---- *)
(* statements and Examples live in Roundtrip/PropsLinkNet.v; re-stated here (by
   `exact`) because this is the file whose `Print Assumptions` the driver parses *)
From EP Require Export Roundtrip.PropsLinkNet.
Module LINKNET.
Import Roundtrip.Macsec.
Theorem C08_Macsec_ser_agree : forall h out,
  exists e, mac_to_bytes h = Some e /\ mac_write out h = Some (out ++ e) /\ len e = mac_header_len h.
Proof. exact MACSEC.C08_Macsec_ser_agree. Qed.
Print Assumptions C08_Macsec_ser_agree.
Theorem C08_Macsec_dec_enc : forall h rest, wf_mac h = true ->
  exists e, mac_to_bytes h = Some e /\ len e = mac_header_len h
    /\ mac_from_slice (e ++ rest) = Ok h /\ drop (mac_header_len h) (e ++ rest) = rest
    /\ mac_read (e ++ rest) = Ok (h, rest).
Proof. exact MACSEC.C08_Macsec_dec_enc. Qed.
Print Assumptions C08_Macsec_dec_enc.
Theorem C08_Macsec_excluded_rejected : forall h rest, mac_in_range h = true -> wf_mac h = false ->
  exists e, mac_to_bytes h = Some e /\ mac_from_slice (e ++ rest) = Err (EContent 1)
            /\ mac_read (e ++ rest) = Err (EContent 1).
Proof. exact MACSEC.C08_Macsec_excluded_rejected. Qed.
Print Assumptions C08_Macsec_excluded_rejected.
Theorem C08_Macsec_enc_dec : forall bs h, bytes_ok bs -> mac_from_slice bs = Ok h ->
  wf_mac h = true /\ mac_header_len h <= len bs
  /\ exists e, mac_to_bytes h = Some e
       /\ agree (mac_keep_mask (mac_header_len h)) e (take (mac_header_len h) bs)
       /\ mac_from_slice (e ++ drop (mac_header_len h) bs) = Ok h.
Proof. exact MACSEC.C08_Macsec_enc_dec. Qed.
Print Assumptions C08_Macsec_enc_dec.
Theorem C08_Macsec_spec : forall h, wf_mac h = true ->
  mac_to_bytes h = Some (SpecLinkNet.macsec_layout (mac_endstation_id h) (mac_sci_some (mac_sci h)) (mac_scb h)
    (mac_encrypted (mac_ptype h)) (mac_userdata_changed (mac_ptype h)) (mac_an h) (mac_short_len h)
    (mac_packet_nr h) (mac_sci h) (MacsecProofs.mac_et_opt (mac_ptype h))).
Proof. exact MACSEC.C08_Macsec_spec. Qed.
Print Assumptions C08_Macsec_spec.

Import Roundtrip.Auth Roundtrip.AuthProofs.
Theorem C08_Auth_ser_agree : forall h out, wf_ah h = true ->
  exists e, ah_to_bytes h = Some e /\ ah_write out h = Some (out ++ e) /\ len e = ah_header_len h.
Proof. exact AUTH.C08_Auth_ser_agree. Qed.
Print Assumptions C08_Auth_ser_agree.
Theorem C08_Auth_dec_enc : forall h rest, wf_ah h = true ->
  exists e, ah_to_bytes h = Some e /\ ah_from_slice (e ++ rest) = Ok (ah_norm h, rest)
            /\ ah_read (e ++ rest) = Ok (ah_norm h, rest) /\ ah_eqb (ah_norm h) h = true.
Proof. exact AUTH.C08_Auth_dec_enc. Qed.
Print Assumptions C08_Auth_dec_enc.
Theorem C08_Auth_enc_dec : forall bs h rest, bytes_ok bs -> ah_from_slice bs = Ok (h, rest) ->
  wf_ah h = true /\ ah_norm h = h /\
  exists e, ah_to_bytes h = Some e /\ bs = take (ah_header_len h) bs ++ rest
            /\ agree (ah_keep_mask (ah_header_len h)) e (take (ah_header_len h) bs)
            /\ ah_from_slice e = Ok (h, []).
Proof. exact AUTH.C08_Auth_enc_dec. Qed.
Print Assumptions C08_Auth_enc_dec.
Theorem C08_Auth_spec : forall h, wf_ah h = true ->
  ah_to_bytes h = Some (SpecLinkNet.ah_layout (ah_next_header h) (ah_spi h) (ah_sequence_number h) (ah_icv h)).
Proof. exact AUTH.C08_Auth_spec. Qed.
Print Assumptions C08_Auth_spec.

Import Roundtrip.RawExt Roundtrip.RawExtProofs.
Theorem C08_RawExt_ser_agree : forall h out, wf_rx h = true ->
  exists e, rx_to_bytes h = Some e /\ rx_write out h = Some (out ++ e) /\ len e = rx_header_len h.
Proof. exact RAWEXT.C08_RawExt_ser_agree. Qed.
Print Assumptions C08_RawExt_ser_agree.
Theorem C08_RawExt_dec_enc : forall h rest, wf_rx h = true ->
  exists e, rx_to_bytes h = Some e /\ rx_from_slice (e ++ rest) = Ok (rx_norm h, rest)
            /\ rx_read (e ++ rest) = Ok (rx_norm h, rest) /\ rx_eqb (rx_norm h) h = true.
Proof. exact RAWEXT.C08_RawExt_dec_enc. Qed.
Print Assumptions C08_RawExt_dec_enc.
Theorem C08_RawExt_enc_dec : forall bs h rest, bytes_ok bs -> rx_from_slice bs = Ok (h, rest) ->
  wf_rx h = true /\ rx_norm h = h /\
  exists e, rx_to_bytes h = Some e /\ bs = e ++ rest /\ len e = rx_header_len h
            /\ rx_from_slice e = Ok (h, []).
Proof. exact RAWEXT.C08_RawExt_enc_dec. Qed.
Print Assumptions C08_RawExt_enc_dec.
Theorem C08_RawExt_spec : forall h, wf_rx h = true ->
  rx_to_bytes h = Some (SpecLinkNet.rawext_layout (rx_next_header h) (rx_pl h)).
Proof. exact RAWEXT.C08_RawExt_spec. Qed.
Print Assumptions C08_RawExt_spec.

Import Roundtrip.Ipv6 Roundtrip.Ipv6Proofs.
Theorem C08_Ipv6_ser_agree : forall h out, wf_ip6 h = true ->
  ip6_write out h = out ++ ip6_to_bytes h /\ len (ip6_to_bytes h) = ip6_header_len h.
Proof. exact IPV6.C08_Ipv6_ser_agree. Qed.
Print Assumptions C08_Ipv6_ser_agree.
Theorem C08_Ipv6_dec_enc : forall h rest, wf_ip6 h = true ->
  ip6_from_slice (ip6_to_bytes h ++ rest) = Ok (h, rest) /\ ip6_read (ip6_to_bytes h ++ rest) = Ok (h, rest).
Proof. exact IPV6.C08_Ipv6_dec_enc. Qed.
Print Assumptions C08_Ipv6_dec_enc.
Theorem C08_Ipv6_enc_dec : forall bs h rest, bytes_ok bs -> ip6_from_slice bs = Ok (h, rest) ->
  wf_ip6 h = true /\ bs = ip6_to_bytes h ++ rest /\ len (ip6_to_bytes h) = 40
  /\ ip6_from_slice (ip6_to_bytes h) = Ok (h, []).
Proof. exact IPV6.C08_Ipv6_enc_dec. Qed.
Print Assumptions C08_Ipv6_enc_dec.
Theorem C08_Ipv6_spec : forall h, wf_ip6 h = true ->
  ip6_to_bytes h = SpecLinkNet.ipv6_layout (i6_traffic_class h) (i6_flow_label h) (i6_payload_length h)
                     (i6_next_header h) (i6_hop_limit h) (i6_source h) (i6_destination h).
Proof. exact IPV6.C08_Ipv6_spec. Qed.
Print Assumptions C08_Ipv6_spec.

Import Roundtrip.Eth Roundtrip.EthProofs.
Theorem C08_Eth_ser_agree : forall h out slice, wf_eth h = true ->
  eth_write out h = out ++ eth_to_bytes h /\ len (eth_to_bytes h) = eth_header_len h
  /\ (14 <= len slice -> eth_write_to_slice slice h = Ok (eth_to_bytes h ++ drop 14 slice, drop 14 slice))
  /\ (len slice < 14 -> eth_write_to_slice slice h = Err ELen).
Proof. exact ETH.C08_Eth_ser_agree. Qed.
Print Assumptions C08_Eth_ser_agree.
Theorem C08_Eth_dec_enc : forall h rest, wf_eth h = true ->
  eth_from_slice (eth_to_bytes h ++ rest) = Ok (h, rest) /\ eth_read (eth_to_bytes h ++ rest) = Ok (h, rest)
  /\ eth_from_bytes (eth_to_bytes h) = Ok h.
Proof. exact ETH.C08_Eth_dec_enc. Qed.
Print Assumptions C08_Eth_dec_enc.
Theorem C08_Eth_enc_dec : forall bs h rest, bytes_ok bs -> eth_from_slice bs = Ok (h, rest) ->
  wf_eth h = true /\ bs = eth_to_bytes h ++ rest /\ len (eth_to_bytes h) = 14
  /\ eth_from_slice (eth_to_bytes h) = Ok (h, []).
Proof. exact ETH.C08_Eth_enc_dec. Qed.
Print Assumptions C08_Eth_enc_dec.
Theorem C08_Eth_spec : forall h,
  eth_to_bytes h = SpecLinkNet.eth_layout (eth_destination h) (eth_source h) (eth_ether_type h).
Proof. exact ETH.C08_Eth_spec. Qed.
Print Assumptions C08_Eth_spec.

Import Roundtrip.Vlan Roundtrip.VlanProofs.
Theorem C08_Vlan_ser_agree : forall h out,
  vl_write out h = out ++ vl_to_bytes h /\ len (vl_to_bytes h) = vl_header_len h.
Proof. exact VLAN.C08_Vlan_ser_agree. Qed.
Print Assumptions C08_Vlan_ser_agree.
Theorem C08_Vlan_dec_enc : forall h rest, wf_vl h = true ->
  vl_from_slice (vl_to_bytes h ++ rest) = Ok (h, rest) /\ vl_read (vl_to_bytes h ++ rest) = Ok (h, rest)
  /\ vl_from_bytes (vl_to_bytes h) = Ok h.
Proof. exact VLAN.C08_Vlan_dec_enc. Qed.
Print Assumptions C08_Vlan_dec_enc.
Theorem C08_Vlan_enc_dec : forall bs h rest, bytes_ok bs -> vl_from_slice bs = Ok (h, rest) ->
  wf_vl h = true /\ bs = vl_to_bytes h ++ rest /\ len (vl_to_bytes h) = 4
  /\ vl_from_slice (vl_to_bytes h) = Ok (h, []).
Proof. exact VLAN.C08_Vlan_enc_dec. Qed.
Print Assumptions C08_Vlan_enc_dec.
Theorem C08_Vlan_spec : forall h, wf_vl h = true ->
  vl_to_bytes h = SpecLinkNet.vlan_layout (vl_pcp h) (vl_drop_eligible_indicator h) (vl_vlan_id h) (vl_ether_type h).
Proof. exact VLAN.C08_Vlan_spec. Qed.
Print Assumptions C08_Vlan_spec.

Import Roundtrip.Sll Roundtrip.SllProofs.
Theorem C08_Sll_ser_agree : forall h out slice, wf_sll h = true ->
  sll_write out h = out ++ sll_to_bytes h /\ len (sll_to_bytes h) = sll_header_len h
  /\ (16 <= len slice -> sll_write_to_slice slice h = Ok (sll_to_bytes h ++ drop 16 slice, drop 16 slice))
  /\ (len slice < 16 -> sll_write_to_slice slice h = Err ELen).
Proof. exact SLL.C08_Sll_ser_agree. Qed.
Print Assumptions C08_Sll_ser_agree.
Theorem C08_Sll_dec_enc : forall h rest, wf_sll h = true ->
  sll_from_slice (sll_to_bytes h ++ rest) = Ok (h, rest) /\ sll_read (sll_to_bytes h ++ rest) = Ok (h, rest)
  /\ sll_from_bytes (sll_to_bytes h) = Ok h.
Proof. exact SLL.C08_Sll_dec_enc. Qed.
Print Assumptions C08_Sll_dec_enc.
Theorem C08_Sll_enc_dec : forall bs h rest, bytes_ok bs -> sll_from_slice bs = Ok (h, rest) ->
  wf_sll h = true /\ bs = sll_to_bytes h ++ rest /\ len (sll_to_bytes h) = 16
  /\ sll_from_slice (sll_to_bytes h) = Ok (h, []).
Proof. exact SLL.C08_Sll_enc_dec. Qed.
Print Assumptions C08_Sll_enc_dec.
Theorem C08_Sll_inconsistent_not_roundtrip : forall h rest, sll_in_range h = true -> sll_consistent h = false ->
  forall h' rest', sll_from_slice (sll_to_bytes h ++ rest) = Ok (h', rest') -> h' <> h.
Proof. exact SLL.C08_Sll_inconsistent_not_roundtrip. Qed.
Print Assumptions C08_Sll_inconsistent_not_roundtrip.
Theorem C08_Sll_spec : forall h, sll_to_bytes h =
  SpecLinkNet.sll_layout (sll_packet_type h) (sll_arp_hrd_type h) (sll_sender_address_valid_length h)
             (sll_sender_address h) (sll_protocol_u16 (sll_protocol_type h)).
Proof. exact SLL.C08_Sll_spec. Qed.
Print Assumptions C08_Sll_spec.

Import Roundtrip.Arp Roundtrip.ArpProofs.
Theorem C08_Arp_ser_agree : forall h out, wf_arp h = true ->
  exists e, arp_to_bytes h = Some e /\ arp_write out h = Some (out ++ e) /\ len e = arp_packet_len h.
Proof. exact ARP.C08_Arp_ser_agree. Qed.
Print Assumptions C08_Arp_ser_agree.
Theorem C08_Arp_dec_enc : forall h rest, wf_arp h = true ->
  exists e, arp_to_bytes h = Some e /\ len e = arp_packet_len h
    /\ arp_from_slice (e ++ rest) = Ok (arp_norm h) /\ drop (arp_packet_len h) (e ++ rest) = rest
    /\ arp_read (e ++ rest) = Ok (arp_norm h, rest) /\ arp_eqb (arp_norm h) h = true.
Proof. exact ARP.C08_Arp_dec_enc. Qed.
Print Assumptions C08_Arp_dec_enc.
Theorem C08_Arp_enc_dec : forall bs h, bytes_ok bs -> arp_from_slice bs = Ok h ->
  wf_arp h = true /\ arp_norm h = h /\ arp_packet_len h <= len bs
  /\ exists e, arp_to_bytes h = Some e /\ e = take (arp_packet_len h) bs
       /\ arp_from_slice (e ++ drop (arp_packet_len h) bs) = Ok h.
Proof. exact ARP.C08_Arp_enc_dec. Qed.
Print Assumptions C08_Arp_enc_dec.
Theorem C08_Arp_spec : forall h, wf_arp h = true ->
  arp_to_bytes h = Some (SpecLinkNet.arp_layout (arp_hw_addr_type h) (arp_proto_addr_type h) (arp_operation h)
                                    (arp_sh h) (arp_sp h) (arp_th h) (arp_tp h)).
Proof. exact ARP.C08_Arp_spec. Qed.
Print Assumptions C08_Arp_spec.
Theorem C08_ArpEthIpv4_ser_agree : forall v, wf_ae v = true ->
  exists p, ae_to_arp_packet v = Some p /\ wf_arp p = true /\ arp_to_bytes p = Some (ae_to_bytes v)
            /\ len (ae_to_bytes v) = 28 /\ arp_try_eth_ipv4 p = Ok v.
Proof. exact ARP.C08_ArpEthIpv4_ser_agree. Qed.
Print Assumptions C08_ArpEthIpv4_ser_agree.
Theorem C08_ArpEthIpv4_dec_enc : forall v rest, wf_ae v = true ->
  exists p, arp_from_slice (ae_to_bytes v ++ rest) = Ok p /\ arp_try_eth_ipv4 p = Ok v
            /\ drop 28 (ae_to_bytes v ++ rest) = rest.
Proof. exact ARP.C08_ArpEthIpv4_dec_enc. Qed.
Print Assumptions C08_ArpEthIpv4_dec_enc.
Theorem C08_ArpEthIpv4_enc_dec : forall bs p v, bytes_ok bs -> arp_from_slice bs = Ok p ->
  arp_try_eth_ipv4 p = Ok v -> wf_ae v = true /\ 28 <= len bs /\ ae_to_bytes v = take 28 bs.
Proof. exact ARP.C08_ArpEthIpv4_enc_dec. Qed.
Print Assumptions C08_ArpEthIpv4_enc_dec.

Import Roundtrip.Exts4 Roundtrip.Exts4Proofs.
Theorem C08_Exts4_ser_agree : forall e out start, wf_x4 e = true -> x4_linked start e = true ->
  exists b, x4_write out e start = Ok (out ++ b) /\ len b = x4_header_len e
            /\ match x4_auth e with Some h => ah_to_bytes h = Some b | None => b = [] end.
Proof. exact EXTS4.C08_Exts4_ser_agree. Qed.
Print Assumptions C08_Exts4_ser_agree.
Theorem C08_Exts4_dec_enc : forall e start rest, wf_x4 e = true -> x4_linked start e = true ->
  exists b, x4_write [] e start = Ok b
    /\ x4_from_slice start (b ++ rest) = Ok (x4_norm e, x4_final start e, rest)
    /\ x4_read (b ++ rest) start = Ok (x4_norm e, x4_final start e, rest)
    /\ x4_eqb (x4_norm e) e = true.
Proof. exact EXTS4.C08_Exts4_dec_enc. Qed.
Print Assumptions C08_Exts4_dec_enc.
Theorem C08_Exts4_enc_dec : forall start bs e n rest, bytes_ok bs -> x4_from_slice start bs = Ok (e, n, rest) ->
  wf_x4 e = true /\ x4_norm e = e /\ x4_linked start e = true /\ n = x4_final start e
  /\ exists b, x4_write [] e start = Ok b /\ bs = take (x4_header_len e) bs ++ rest
       /\ agree (x4_keep_mask e) b (take (x4_header_len e) bs)
       /\ x4_from_slice start (b ++ rest) = Ok (e, n, rest).
Proof. exact EXTS4.C08_Exts4_enc_dec. Qed.
Print Assumptions C08_Exts4_enc_dec.

(* Ipv6Extensions, on the model of property C12 (ExtChain/); kept last: the imports shadow Ok/Err *)
Module X6.
Import ExtChain.Spec ExtChain.Model ExtChain.Proofs Roundtrip.Exts6Proofs.
Theorem C08_Exts6_dec_enc_partial : forall e first bs n rest, exts6_valid e = true ->
  write e first = (bs, Ok tt) -> next_header e first = Ok n -> is_ext_number n = false ->
  len bs = header_len e /\ from_slice first (bs ++ rest) = Ok (e, n, rest).
Proof. exact EXTS6.C08_Exts6_dec_enc_partial. Qed.
Print Assumptions C08_Exts6_dec_enc_partial.
Theorem C08_Exts6_enc_dec : forall first bs e n r, bytes_ok bs -> from_slice first bs = Ok (e, n, r) ->
  exts6_valid e = true /\
  exists bs' cons, write e first = (bs', Ok tt) /\ next_header e first = Ok n
    /\ bs = cons ++ r /\ hdr_eq bs' cons /\ len bs' = header_len e
    /\ forall t, from_slice first (bs' ++ t) = Ok (e, n, t).
Proof. exact EXTS6.C08_Exts6_enc_dec. Qed.
Print Assumptions C08_Exts6_enc_dec.
Theorem C08_Exts6_frame : forall first s t e n r,
  from_slice first s = Ok (e, n, r) -> from_slice first (s ++ t) = Ok (e, n, r ++ t).
Proof. exact EXTS6.C08_Exts6_frame. Qed.
Print Assumptions C08_Exts6_frame.
End X6.
(*c08a-more*)
End LINKNET.
(* ---- end extend-c08a ---- *)

(* ---- transport/control types (extend-c08b) ---- *)
(* statements, comments and Examples live in Roundtrip/PropsTransport.v; re-stated here (by
   `exact`) because this is the file whose `Print Assumptions` the driver parses *)
From EP Require Export Roundtrip.PropsTransport.
From EP Require CtlMsg.Spec Roundtrip.Common Roundtrip.Grec Roundtrip.GrecProofs Roundtrip.Icmp4 Roundtrip.Icmp4Proofs Roundtrip.Icmp6 Roundtrip.Icmp6Proofs Roundtrip.Igmp Roundtrip.IgmpProofs Roundtrip.Prefix Roundtrip.PrefixProofs Roundtrip.Udp Roundtrip.UdpProofs.
Module TR_UDP.
Import Roundtrip.Udp Roundtrip.UdpProofs.
Theorem C08_Udp_ser_agree : forall h out,
  udp_write out h = out ++ udp_to_bytes h /\ len (udp_to_bytes h) = udp_header_len h.
Proof. exact UDP.C08_Udp_ser_agree. Qed.
Print Assumptions C08_Udp_ser_agree.
Theorem C08_Udp_dec_enc : forall h rest, wf_udp h = true ->
  udp_from_slice (udp_to_bytes h ++ rest) = Ok (h, rest) /\ udp_read (udp_to_bytes h ++ rest) = Ok (h, rest).
Proof. exact UDP.C08_Udp_dec_enc. Qed.
Print Assumptions C08_Udp_dec_enc.
Theorem C08_Udp_enc_dec : forall bs h rest, bytes_ok bs -> udp_from_slice bs = Ok (h, rest) ->
  wf_udp h = true /\ bs = take 8 bs ++ rest
  /\ udp_to_bytes h = take 8 bs
  /\ agree udp_keep_mask (udp_to_bytes h) (take 8 bs)
  /\ udp_from_slice (udp_to_bytes h) = Ok (h, [])
  /\ udp_read bs = Ok (h, rest).
Proof. exact UDP.C08_Udp_enc_dec. Qed.
Print Assumptions C08_Udp_enc_dec.
Theorem C08_Udp_spec : forall h, wf_udp h = true ->
  udp_to_bytes h = udp_layout (udp_source_port h) (udp_destination_port h) (udp_length h) (udp_checksum h).
Proof. exact UDP.C08_Udp_spec. Qed.
Print Assumptions C08_Udp_spec.
End TR_UDP.
Module TR_ICMP4.
Import CtlMsg.Spec Roundtrip.Icmp4 Roundtrip.Icmp4Proofs.
Import Roundtrip.Common.
Theorem C08_Icmp4_ser_agree : forall h out,
  exists e, icmp4_to_bytes h = Some e /\ icmp4_write out h = Some (out ++ e) /\ len e = icmp4_header_len h.
Proof. exact ICMP4.C08_Icmp4_ser_agree. Qed.
Print Assumptions C08_Icmp4_ser_agree.
Theorem C08_Icmp4_dec_enc : forall h, wf_icmp4 h = true ->
  exists e, icmp4_to_bytes h = Some e /\ len e = icmp4_header_len h /\ bytes_ok e /\
    (forall rest, icmp4_read (e ++ rest) = Ok (h, rest)) /\
    (forall rest, icmp4_header_len h = 8 \/ rest = [] -> icmp4_from_slice (e ++ rest) = Ok (h, rest)).
Proof. exact ICMP4.C08_Icmp4_dec_enc. Qed.
Print Assumptions C08_Icmp4_dec_enc.
Theorem C08_Icmp4_enc_dec : forall bs h rest, bytes_ok bs -> icmp4_from_slice bs = Ok (h, rest) ->
  wf_icmp4 h = true /\ bs = take (icmp4_header_len h) bs ++ rest /\
  exists e t c, icmp4_to_bytes h = Some e /\ rd bs 0 = Some t /\ rd bs 1 = Some c /\
    agree (icmp4_keep_mask t c (icmp4_header_len h)) e (take (icmp4_header_len h) bs) /\
    icmp4_from_slice e = Ok (h, []) /\ icmp4_read bs = Ok (h, rest).
Proof. exact ICMP4.C08_Icmp4_enc_dec. Qed.
Print Assumptions C08_Icmp4_enc_dec.
Theorem C08_Icmp4_spec : forall h, wf_icmp4 h = true ->
  exists e, icmp4_to_bytes h = Some e /\
    icmp4 e = CtlMsg.Spec.Ok (icmp4_type h, icmp4_header_len h, []).
Proof. exact ICMP4.C08_Icmp4_spec. Qed.
Print Assumptions C08_Icmp4_spec.
End TR_ICMP4.
Module TR_ICMP6.
Import CtlMsg.Spec Roundtrip.Icmp6 Roundtrip.Icmp6Proofs.
Import Roundtrip.Common.
Theorem C08_Icmp6_ser_agree : forall h out,
  exists e, icmp6_to_bytes h = Some e /\ icmp6_write out h = Some (out ++ e) /\ len e = icmp6_header_len h.
Proof. exact ICMP6.C08_Icmp6_ser_agree. Qed.
Print Assumptions C08_Icmp6_ser_agree.
Theorem C08_Icmp6_dec_enc : forall h, wf_icmp6 h = true ->
  exists e, icmp6_to_bytes h = Some e /\ len e = icmp6_header_len h /\ bytes_ok e /\
    (forall rest, icmp6_read (e ++ rest) = Ok (h, rest)) /\
    (forall rest, 8 + len rest <= 4294967295 -> icmp6_from_slice (e ++ rest) = Ok (h, rest)).
Proof. exact ICMP6.C08_Icmp6_dec_enc. Qed.
Print Assumptions C08_Icmp6_dec_enc.
Theorem C08_Icmp6_enc_dec : forall bs h rest, bytes_ok bs -> icmp6_from_slice bs = Ok (h, rest) ->
  wf_icmp6 h = true /\ bs = take (icmp6_header_len h) bs ++ rest /\
  exists e t c, icmp6_to_bytes h = Some e /\ rd bs 0 = Some t /\ rd bs 1 = Some c /\
    agree (icmp6_keep_mask t c) e (take (icmp6_header_len h) bs) /\
    icmp6_from_slice e = Ok (h, []) /\ icmp6_read bs = Ok (h, rest).
Proof. exact ICMP6.C08_Icmp6_enc_dec. Qed.
Print Assumptions C08_Icmp6_enc_dec.
Theorem C08_Icmp6_spec : forall h, wf_icmp6 h = true ->
  exists e, icmp6_to_bytes h = Some e /\ icmp6 e = CtlMsg.Spec.Ok (icmp6_type h, []).
Proof. exact ICMP6.C08_Icmp6_spec. Qed.
Print Assumptions C08_Icmp6_spec.
End TR_ICMP6.
Module TR_IGMP.
Import CtlMsg.Spec Roundtrip.Igmp Roundtrip.IgmpProofs.
Import Roundtrip.Common.
Theorem C08_Igmp_ser_agree : forall h,
  exists e, igmp_to_bytes h = Some e /\ len e = igmp_header_len h.
Proof. exact IGMP.C08_Igmp_ser_agree. Qed.
Print Assumptions C08_Igmp_ser_agree.
Theorem C08_Igmp_dec_enc : forall h, wf_igmp h = true ->
  exists e, igmp_to_bytes h = Some e /\ len e = igmp_header_len h /\ bytes_ok e /\
    (forall rest, igmp_is_query8 (igmp_type h) = false \/ rest = [] -> igmp_from_slice (e ++ rest) = Ok (h, rest)).
Proof. exact IGMP.C08_Igmp_dec_enc. Qed.
Print Assumptions C08_Igmp_dec_enc.
Theorem C08_Igmp_enc_dec : forall bs h rest, bytes_ok bs -> igmp_from_slice bs = Ok (h, rest) ->
  wf_igmp h = true /\ bs = take (igmp_header_len h) bs ++ rest /\
  exists e t, igmp_to_bytes h = Some e /\ rd bs 0 = Some t /\
    agree (igmp_keep_mask t (igmp_header_len h)) e (take (igmp_header_len h) bs) /\
    igmp_from_slice e = Ok (h, []).
Proof. exact IGMP.C08_Igmp_enc_dec. Qed.
Print Assumptions C08_Igmp_enc_dec.
Theorem C08_Igmp_spec : forall h, wf_igmp h = true ->
  exists e, igmp_to_bytes h = Some e /\
    igmp e = CtlMsg.Spec.Ok (igmp_type h, igmp_checksum h, igmp_header_len h, []).
Proof. exact IGMP.C08_Igmp_spec. Qed.
Print Assumptions C08_Igmp_spec.
End TR_IGMP.
Module TR_GREC.
Import CtlMsg.Spec Roundtrip.Grec Roundtrip.GrecProofs.
Import Roundtrip.Common.
Theorem C08_Grec_ser_agree : forall g, len (grec_to_bytes g) = grec_len.
Proof. exact GREC.C08_Grec_ser_agree. Qed.
Print Assumptions C08_Grec_ser_agree.
Theorem C08_Grec_dec_enc : forall g rest, wf_grec g = true ->
  grec_from_slice (grec_to_bytes g ++ rest) = Ok (g, rest).
Proof. exact GREC.C08_Grec_dec_enc. Qed.
Print Assumptions C08_Grec_dec_enc.
Theorem C08_Grec_enc_dec : forall bs g rest, bytes_ok bs -> grec_from_slice bs = Ok (g, rest) ->
  wf_grec g = true /\ bs = take 8 bs ++ rest /\ grec_to_bytes g = take 8 bs
  /\ agree grec_keep_mask (grec_to_bytes g) (take 8 bs)
  /\ grec_from_slice (grec_to_bytes g) = Ok (g, []).
Proof. exact GREC.C08_Grec_enc_dec. Qed.
Print Assumptions C08_Grec_enc_dec.
Theorem C08_Grec_spec : forall g, wf_grec g = true -> group_record (grec_to_bytes g) = CtlMsg.Spec.Ok (g, []).
Proof. exact GREC.C08_Grec_spec. Qed.
Print Assumptions C08_Grec_spec.
End TR_GREC.
Module TR_PREFIX.
Import Roundtrip.Prefix Roundtrip.PrefixProofs.
Theorem C08_Prefix_ser_agree : forall h, wf_pi h = true -> exists e, pi_to_bytes h = Some e /\ len e = pi_len.
Proof. exact PREFIX.C08_Prefix_ser_agree. Qed.
Print Assumptions C08_Prefix_ser_agree.
Theorem C08_Prefix_dec_enc : forall h, wf_pi h = true ->
  exists e, pi_to_bytes h = Some e /\ len e = pi_len /\ bytes_ok e /\
    pi_from_slice e = Ok h /\ pi_from_bytes e = Ok h /\
    (forall rest, rest <> [] -> pi_from_slice (e ++ rest) = Err ELen).
Proof. exact PREFIX.C08_Prefix_dec_enc. Qed.
Print Assumptions C08_Prefix_dec_enc.
Theorem C08_Prefix_enc_dec : forall bs h, bytes_ok bs -> pi_from_slice bs = Ok h ->
  wf_pi h = true /\ len bs = pi_len /\
  exists e, pi_to_bytes h = Some e /\ agree pi_keep_mask e bs /\ pi_from_slice e = Ok h /\ pi_from_bytes bs = Ok h.
Proof. exact PREFIX.C08_Prefix_enc_dec. Qed.
Print Assumptions C08_Prefix_enc_dec.
Theorem C08_Prefix_spec : forall h, wf_pi h = true ->
  pi_to_bytes h = Some (pi_layout (pi_prefix_length h) (pi_on_link h) (pi_autonomous h)
                          (pi_valid_lifetime h) (pi_preferred_lifetime h) (pi_prefix h)).
Proof. exact PREFIX.C08_Prefix_spec. Qed.
Print Assumptions C08_Prefix_spec.
End TR_PREFIX.
(* ---- end extend-c08b ---- *)

(* ---- IpHeaders (extend-c08c) ---- *)
(* enum IpHeaders { Ipv4(Ipv4Header, Ipv4Extensions), Ipv6(Ipv6Header, Ipv6Extensions) }: model
   Roundtrip/IpHeaders.v, COMPOSED of the models above (Ipv4Header, Ipv6Header, IpAuthHeader /
   Ipv4Extensions) and of property C12's (ExtChain/Model.v: Ipv6Extensions; ExtChain/ReadModel.v:
   Ipv6Extensions::read_limited; IoFault/Model.v: LimitedReader).  Lemmas: Roundtrip/IpHeadersProofs.v.
   The chain bookkeeping itself (set_next_headers links in RFC order, write <=> walk for the
   extensions alone) is C12's (C12_write_iff_walk, C12_link_walks), cited through the lemmas. *)
From EP Require Roundtrip.Ipv6 Roundtrip.Auth Roundtrip.Exts4 Roundtrip.IpHeaders Roundtrip.IpHeadersProofs
  Roundtrip.IpHeadersBuild.
From EP Require ExtChain.Spec ExtChain.Model Roundtrip.Exts6Proofs.
Module IPHEADERS.
Import Checksum.Model Roundtrip.Ipv4 Roundtrip.Ipv6 Roundtrip.Auth Roundtrip.Exts4.
Import Roundtrip.IpHeaders Roundtrip.IpHeadersProofs.

(* For every well-formed value (iph_wf: parts in range; chain linked from the IP header's protocol /
   next_header field to a non-extension number -- IPv4: AH present <=> protocol = 51; length field covers
   the headers) and every endianness of the checksum code:
   * write succeeds and emits exactly header_len bytes;
   * from_slice AND the version-specific decoder, given those bytes followed by ANY payload of the
     announced length (iph_payload_fits: header_len + len payload = total_len resp. 40 + payload_length;
     IPv6 payload_length 0: everything up to the slice end) and ANY bytes t behind the announced packet,
     return the written value (iph_written: header checksum as recomputed by Ipv4Header::write, option /
     ICV buffers zero behind the visible part; IPv6: the value itself), the final protocol number, the
     fragmentation flag, the len source and exactly the payload (t is cut off);
   * read over a Cursor returns the same value and number and leaves the cursor behind the headers, whatever
     follows (IPv6: iph_read_room = the bytes the LimitedReader may be asked for are there, hypothesis
     of C12's read_limited theorems; nothing for IPv4). *)
Theorem C08_IpHeaders_dec_enc : forall en h, iph_wf h = true ->
  exists w, iph_write en h = (w, ExtChain.Model.Ok tt) /\ len w = iph_header_len h
    /\ (forall payload t, iph_payload_fits h payload t ->
          iph_from_slice (w ++ payload ++ t) = Ok (iph_written en h, iph_payload_desc h payload)
          /\ iph_from_version_slice h (w ++ payload ++ t) = Ok (iph_written en h, iph_payload_desc h payload))
    /\ (forall rest, bytes_ok rest -> iph_read_room h rest ->
          iph_read (w ++ rest) = Ok (iph_written en h, iph_final h, rest)).
Proof. exact iph_dec_enc. Qed.
Print Assumptions C08_IpHeaders_dec_enc.

(* the returned value is EQUAL to h (derive(PartialEq): Ipv4Options / IpAuthHeader compare the visible
   slices) exactly up to the IPv4 header checksum, which write recomputes: equal when the field was consistent *)
Theorem C08_IpHeaders_written_eq : forall en h, iph_wf h = true -> iph_checksum_ok en h = true ->
  iph_eq (iph_written en h) h.
Proof. exact iph_written_eq. Qed.
Print Assumptions C08_IpHeaders_written_eq.

(* write = header bytes ++ extension bytes, the IPv4 header with bytes 10-11 := computed checksum *)
Theorem C08_IpHeaders_ser_agree_v4 : forall en hd e, wf_ip4 hd = true -> wf_x4 e = true ->
  x4_linked (i4_protocol hd) e = true ->
  exists ck hb xb, ip4_calc_checksum en hd = Some ck /\ ck < 65536
    /\ ip4_to_bytes (ip4_set_checksum hd ck) = Some hb /\ len hb = ip4_header_len hd
    /\ x4_write [] e (i4_protocol hd) = Ok xb /\ len xb = x4_header_len e
    /\ iph_write en (IpV4 hd e) = (hb ++ xb, ExtChain.Model.Ok tt).
Proof. exact iph_write_v4. Qed.
Print Assumptions C08_IpHeaders_ser_agree_v4.
Theorem C08_IpHeaders_ser_agree_v6 : forall en hd e n, ExtChain.Model.exts6_valid e = true ->
  ExtChain.Model.next_header e (i6_next_header hd) = ExtChain.Model.Ok n ->
  exists xb, ExtChain.Model.write e (i6_next_header hd) = (xb, ExtChain.Model.Ok tt)
    /\ len xb = ExtChain.Model.header_len e /\ bytes_ok xb
    /\ iph_write en (IpV6 hd e) = (ip6_to_bytes hd ++ xb, ExtChain.Model.Ok tt).
Proof. exact iph_write_v6. Qed.
Print Assumptions C08_IpHeaders_ser_agree_v6.

(* write succeeds iff next_header() walks the chain, with the same error (on C12_write_iff_walk for the
   IPv6 extensions); a successful write emits header_len bytes.  Parts in range, nothing else assumed. *)
Theorem C08_IpHeaders_write_iff_walk : forall en h, iph_parts_wf h = true ->
  match iph_next_header h with
  | ExtChain.Model.Ok n => snd (iph_write en h) = ExtChain.Model.Ok tt /\ len (fst (iph_write en h)) = iph_header_len h
  | ExtChain.Model.Err x => snd (iph_write en h) = ExtChain.Model.Err x
  | ExtChain.Model.Panic | ExtChain.Model.OutOfFuel => False
  end.
Proof. exact iph_write_iff_walk. Qed.
Print Assumptions C08_IpHeaders_write_iff_walk.

(* every accepted byte string: the parts are in range, next_header() walks to the reported number, write
   succeeds with header_len = consumed bytes, bs = consumed ++ payload ++ (bytes behind the announced packet),
   the written bytes relate to the consumed ones by iph_reencodes = the normalisations already stated for the
   parts (IPv4: bit 7 of byte 6, bytes 10-11 := computed checksum, AH bytes 2-3; IPv6: header exact,
   extensions Exts6Proofs.hdr_eq = fragment byte 1 / bits 1-2 of byte 3, AH bytes 2-3), and decoding
   written ++ payload ++ t again gives the written value and the same payload description -- also for chains
   on which the decoder stopped in front of a repeated extension header. *)
Theorem C08_IpHeaders_enc_dec : forall en bs h p, bytes_ok bs -> iph_from_slice bs = Ok (h, p) ->
  iph_parts_wf h = true /\ iph_next_header h = ExtChain.Model.Ok (ipp_ip_number p)
  /\ exists w cons t, iph_write en h = (w, ExtChain.Model.Ok tt) /\ len w = iph_header_len h
      /\ bs = cons ++ ipp_payload p ++ t /\ len cons = iph_header_len h
      /\ iph_reencodes en h cons w
      /\ iph_from_slice (w ++ ipp_payload p ++ t) = Ok (iph_written en h, p).
Proof. exact iph_enc_dec. Qed.
Print Assumptions C08_IpHeaders_enc_dec.

(* the version-dispatching decoder IS the version-specific one (equal results, errors included) *)
Theorem C08_IpHeaders_dispatch : forall s b0, rd s 0 = Some b0 ->
  (shr b0 4 = 4 -> iph_from_slice s = iph_from_ipv4_slice s) /\
  (shr b0 4 = 6 -> iph_from_slice s = iph_from_ipv6_slice s) /\
  (shr b0 4 <> 4 -> shr b0 4 <> 6 -> iph_from_slice s = Err (C_UNSUPPORTED_VERSION (shr b0 4))).
Proof.
  exact (fun s b0 R => conj (iph_dispatch_v4 s b0 R) (conj (iph_dispatch_v6 s b0 R) (iph_dispatch_other s b0 R))).
Qed.
Print Assumptions C08_IpHeaders_dispatch.

(* ---- non-vacuity ---- *)
(* IPv4 (no options, stale checksum 0) + AH(next 17, ICV 01020304), total_len 40 *)
Definition ex_v4 : IpHeaders :=
  IpV4 {| i4_dscp := 0; i4_ecn := 0; i4_total_len := 40; i4_identification := 1; i4_dont_fragment := false;
          i4_more_fragments := false; i4_fragment_offset := 0; i4_time_to_live := 64; i4_protocol := 51;
          i4_header_checksum := 0; i4_source := [10; 0; 0; 1]; i4_destination := [10; 0; 0; 2];
          i4_options := {| i4o_len := 0; i4o_buf := zeros 40 |} |}
       {| x4_auth := Some {| ah_next_header := 17; ah_spi := 1; ah_sequence_number := 2; ah_raw_icv_len := 1;
                             ah_raw_icv_buffer := [1; 2; 3; 4] ++ zeros 1012 |} |}.
Definition ex_v4_bytes : bytes :=
  [69;0;0;40; 0;1;0;0; 64;51;102;160; 10;0;0;1; 10;0;0;2] ++ [17;2;0;0; 0;0;0;1; 0;0;0;2; 1;2;3;4].
Example C08_IpHeaders_ex_v4 :
  iph_wf ex_v4 = true /\ iph_checksum_ok LE ex_v4 = false
  /\ iph_write LE ex_v4 = (ex_v4_bytes, ExtChain.Model.Ok tt) /\ iph_header_len ex_v4 = 36
  /\ iph_payload_fits ex_v4 [9; 9; 9; 9] [7]
  /\ match iph_from_slice (ex_v4_bytes ++ [9; 9; 9; 9] ++ [7]), iph_read (ex_v4_bytes ++ [9; 9; 9; 9] ++ [7]) with
     | Ok (h, p), Ok (h', n, r) => h = iph_written LE ex_v4 /\ h' = h /\ ipp_ip_number p = 17 /\ n = 17
                                   /\ ipp_payload p = [9; 9; 9; 9] /\ r = [9; 9; 9; 9; 7]
     | _, _ => False
     end.
Proof. vm_compute. repeat split; reflexivity. Qed.

(* IPv6, payload_length 18: hop-by-hop (8 bytes), fragment (offset 1, M), UDP *)
Definition ex_v6 : IpHeaders :=
  IpV6 {| i6_traffic_class := 0; i6_flow_label := 0; i6_payload_length := 18; i6_next_header := 0;
          i6_hop_limit := 64; i6_source := repeat 1 16; i6_destination := repeat 2 16 |}
       (ExtChain.Model.mkExts6 (Some (ExtChain.Model.mkRaw 44 0 [1; 2; 3; 4; 5; 6])) None None
          (Some (ExtChain.Model.mkFrag 17 1 true 1)) None).
Definition ex_v6_bytes : bytes :=
  [96;0;0;0; 0;18; 0; 64] ++ repeat 1 16 ++ repeat 2 16 ++ [44;0;1;2;3;4;5;6] ++ [17;0;0;9;0;0;0;1].
Example C08_IpHeaders_ex_v6 :
  iph_wf ex_v6 = true /\ iph_write LE ex_v6 = (ex_v6_bytes, ExtChain.Model.Ok tt) /\ iph_header_len ex_v6 = 56
  /\ iph_payload_fits ex_v6 [9; 9] [7; 7] /\ iph_read_room ex_v6 [9; 9; 7; 7]
  /\ iph_from_slice (ex_v6_bytes ++ [9; 9] ++ [7; 7])
     = Ok (ex_v6, {| ipp_ip_number := 17; ipp_fragmented := true; ipp_len_source := LsIpv6HeaderPayloadLen;
                     ipp_payload := [9; 9] |})
  /\ iph_read (ex_v6_bytes ++ [9; 9] ++ [7; 7]) = Ok (ex_v6, 17, [9; 9; 7; 7]).
Proof. vm_compute. repeat split; try reflexivity. discriminate. Qed.

(* accepted bytes with reserved bits set (IPv4 bit 7 of byte 6, wrong checksum; fragment header reserved
   byte / bits): the hypotheses of C08_IpHeaders_enc_dec hold, write clears them *)
Example C08_IpHeaders_ex_enc_dec :
  match iph_from_slice ([69;0;0;24; 0;1;128;0; 64;17;1;2; 10;0;0;1; 10;0;0;2] ++ [9;9;9;9]) with
  | Ok (h, p) => iph_write LE h = ([69;0;0;24; 0;1;0;0; 64;17;102;210; 10;0;0;1; 10;0;0;2], ExtChain.Model.Ok tt)
                 /\ ipp_payload p = [9;9;9;9]
  | _ => False
  end /\
  match iph_from_slice ([96;0;0;0; 0;10; 44; 64] ++ repeat 1 16 ++ repeat 2 16 ++ [17;170;0;15;0;0;0;1] ++ [9;9]) with
  | Ok (h, p) => fst (iph_write LE h)
                 = [96;0;0;0; 0;10; 44; 64] ++ repeat 1 16 ++ repeat 2 16 ++ [17;0;0;9;0;0;0;1]
                 /\ ipp_fragmented p = true
  | _ => False
  end.
Proof. vm_compute. repeat split; reflexivity. Qed.

(* write refuses chains that do not walk: routing header nobody announces; AH with protocol 6.  The IP
   header has gone out before the error (40 / 20 bytes in the Vec). *)
Example C08_IpHeaders_ex_not_linked :
  let h6 := IpV6 {| i6_traffic_class := 0; i6_flow_label := 0; i6_payload_length := 8; i6_next_header := 17;
                    i6_hop_limit := 64; i6_source := repeat 1 16; i6_destination := repeat 2 16 |}
                 (ExtChain.Model.mkExts6 None None
                    (Some (ExtChain.Model.mkRouting (ExtChain.Model.mkRaw 17 0 [1; 2; 3; 4; 5; 6]) None)) None None) in
  iph_parts_wf h6 = true /\ iph_wf h6 = false
  /\ iph_next_header h6 = ExtChain.Model.Err (ExtChain.Model.Ipv6Exts (ExtChain.Model.ExtNotReferenced 43))
  /\ snd (iph_write LE h6) = ExtChain.Model.Err (ExtChain.Model.Ipv6Exts (ExtChain.Model.ExtNotReferenced 43))
  /\ len (fst (iph_write LE h6)) = 40.
Proof. vm_compute. repeat split; reflexivity. Qed.

(* F15 (known finding of C06) seen from C08: IPv6 payload_length 0 with an extension header.  from_slice reads
   0 as "up to the end of the slice" and round-trips the value; read hands the 0 to the LimitedReader and fails:
   such a value is outside iph_wf (header_len of the extensions > payload_length), read is NOT claimed for it *)
Definition ex_f15 : IpHeaders :=
  IpV6 {| i6_traffic_class := 0; i6_flow_label := 0; i6_payload_length := 0; i6_next_header := 60;
          i6_hop_limit := 64; i6_source := repeat 0 16; i6_destination := repeat 0 16 |}
       (ExtChain.Model.mkExts6 None (Some (ExtChain.Model.mkRaw 17 0 [0; 0; 0; 0; 0; 0])) None None None).
Example C08_IpHeaders_read_zero_payload_len_refuted :
  iph_parts_wf ex_f15 = true /\ iph_wf ex_f15 = false /\
  exists w, iph_write LE ex_f15 = (w, ExtChain.Model.Ok tt)
    /\ iph_from_slice (w ++ [9; 9]) = Ok (ex_f15, {| ipp_ip_number := 17; ipp_fragmented := false;
                                                     ipp_len_source := LsSlice; ipp_payload := [9; 9] |})
    /\ iph_read (w ++ [9; 9]) = Err ELen.
Proof. split; [reflexivity|]. split; [reflexivity|]. eexists. split; [vm_compute; reflexivity|]. split; vm_compute; reflexivity. Qed.
(* iph_wf is what the crate's own setters establish: for EVERY value with parts in range (any links, any
   length field), set_next_headers(n) -- n not an extension header of the version: iph_last_ok -- followed
   by a successful set_payload_len(k) gives a well-formed value that walks to n and announces header_len + k
   bytes (IPv6 without extensions and k = 0: payload_length 0).  Linking: C12 (C12_link_walks). *)
Theorem C08_IpHeaders_built_wf : forall h n k h', iph_parts_wf h = true ->
  Roundtrip.IpHeadersBuild.iph_last_ok h n = true ->
  iph_set_payload_len (fst (iph_set_next_headers h n)) k = Some h' ->
  iph_wf h' = true /\ iph_final h' = n /\ iph_header_len h' = iph_header_len h
  /\ iph_announced h' = (match h' with
                         | IpV6 _ _ => if iph_header_len h' - 40 + k =? 0 then None else Some (iph_header_len h' + k)
                         | IpV4 _ _ => Some (iph_header_len h' + k)
                         end).
Proof. exact Roundtrip.IpHeadersBuild.iph_built_wf. Qed.
Print Assumptions C08_IpHeaders_built_wf.

(* the unlinked value of C08_IpHeaders_ex_not_linked becomes well-formed *)
Example C08_IpHeaders_ex_built :
  let h6 := IpV6 {| i6_traffic_class := 0; i6_flow_label := 0; i6_payload_length := 8; i6_next_header := 17;
                    i6_hop_limit := 64; i6_source := repeat 1 16; i6_destination := repeat 2 16 |}
                 (ExtChain.Model.mkExts6 None None
                    (Some (ExtChain.Model.mkRouting (ExtChain.Model.mkRaw 17 0 [1; 2; 3; 4; 5; 6]) None)) None None) in
  iph_wf h6 = false /\ Roundtrip.IpHeadersBuild.iph_last_ok h6 6 = true /\
  match iph_set_payload_len (fst (iph_set_next_headers h6 6)) 5 with
  | Some h' => iph_wf h' = true /\ iph_final h' = 6 /\ iph_announced h' = Some 53
  | None => False
  end.
Proof. vm_compute. repeat split; reflexivity. Qed.
End IPHEADERS.
(* ---- end extend-c08c ---- *)

(* ==== audit follow-up (round 1 audit, notes/audit1/C08.md) ================================== *)
From EP Require Roundtrip.DecodersTotal Roundtrip.AuditFollowup Roundtrip.IpHeadersReadAny.
From EP Require Equiv.ReadValues.
Module AUDIT1.
Import Roundtrip.Common Roundtrip.Eth Roundtrip.Vlan Roundtrip.Sll Roundtrip.Macsec Roundtrip.Arp Roundtrip.Ipv4 Roundtrip.Ipv6
  Roundtrip.Auth Roundtrip.RawExt Roundtrip.Frag Roundtrip.Exts4 Roundtrip.Tcp Roundtrip.Udp Roundtrip.Icmp4 Roundtrip.Icmp6
  Roundtrip.Igmp Roundtrip.Grec Roundtrip.Prefix Roundtrip.IpHeaders Roundtrip.DecodersTotal.
Import Roundtrip.Common.

(* ---- the decoders are total: no model failure on ANY input --------------------------------- *)
(* The models return `Err EOOB` / `Err EPanic` where the transliterated code would read out of bounds
   (get_unchecked, from_raw_parts), panic on a slice index / unwrap, or where a part model of C12 / C16
   answers Panic / OutOfFuel / QBad / QUnderflow / QFuel.  The round-trip theorems above conclude `Ok`
   and so exclude these values for accepted inputs and well-formed values only.  Here, for every input
   -- rejected ones included -- every from_slice / read model of the 25 types returns `Ok _` or a proper
   error: `proper r` = r is Ok _, Err ELen, Err (EContent _) or Err EIo; `qreg q` (C12's reader of
   Ipv6Extensions, results of C16's qres) = q is QOk, QIo, QLen, QContent HopByHopNotAtStart or QContent
   ZeroPayloadLen; `x6_proper` (C12's from_slice) = not Panic / OutOfFuel.
   First theorem: no hypothesis at all (any list of numbers): the fixed-length types, MACsec, ICMP, IGMP,
   group record, PrefixInformation, the readers of Ipv6Extensions behind a plain reader and behind a
   LimitedReader of ANY budget. *)
Theorem C08_decoders_total_any : forall bs,
  proper (eth_from_slice bs) /\ proper (eth_read bs) /\
  proper (vl_from_slice bs) /\ proper (vl_read bs) /\
  proper (sll_from_slice bs) /\ proper (Sll.sll_read bs) /\
  proper (mac_from_slice bs) /\ proper (mac_read bs) /\
  proper (ip6_from_slice bs) /\ proper (ip6_read bs) /\
  proper (frag_from_slice bs) /\ proper (frag_read bs) /\
  proper (udp_from_slice bs) /\ proper (udp_read bs) /\
  proper (icmp4_from_slice bs) /\ proper (icmp4_read bs) /\
  proper (icmp6_from_slice bs) /\ proper (icmp6_read bs) /\
  proper (igmp_from_slice bs) /\ proper (grec_from_slice bs) /\ proper (pi_from_slice bs) /\
  (forall first, qreg (fst (ExtChain.ReadModel.read6 false first (IoFault.Model.mk_rstate (ExtChain.ReadModel.cursor bs) None)))) /\
  (forall first mx ls off ly, qreg (fst (ExtChain.ReadModel.read6 true first (limited bs mx ls off ly)))).
Proof. exact Roundtrip.DecodersTotal.decoders_total_any. Qed.
Print Assumptions C08_decoders_total_any.

(* types with a length octet / nibble (TCP data offset, IHL, AH payload length, extension header length,
   ARP address sizes) and the composite types on top of them: for BYTES.  A "byte" >= 256 sends the model
   into a buffer-index branch a real u8 cannot reach (witness: C08_decoders_total_ex). *)
Theorem C08_decoders_total : forall bs, bytes_ok bs ->
  proper (Tcp.from_slice bs) /\ proper (Tcp.read bs) /\
  proper (ip4_from_slice bs) /\ proper (ip4_read bs) /\
  proper (ah_from_slice bs) /\ proper (ah_read bs) /\
  proper (rx_from_slice bs) /\ proper (rx_read bs) /\
  proper (arp_from_slice bs) /\ proper (arp_read bs) /\
  (forall p, arp_from_slice bs = Ok p -> proper (arp_try_eth_ipv4 p)) /\
  (forall start, proper (x4_from_slice start bs) /\ proper (x4_read bs start)) /\
  (forall first, x6_proper (ExtChain.Model.from_slice first bs)) /\
  proper (iph_from_slice bs) /\ proper (iph_from_ipv4_slice bs) /\ proper (iph_from_ipv6_slice bs) /\
  proper (iph_read bs).
Proof. exact Roundtrip.DecodersTotal.decoders_total_bytes. Qed.
Print Assumptions C08_decoders_total.

(* from_bytes([u8; N]): the argument type fixes the length *)
Theorem C08_from_bytes_total : forall b,
  (len b = 14 -> proper (eth_from_bytes b)) /\ (len b = 4 -> proper (vl_from_bytes b)) /\
  (len b = 16 -> proper (sll_from_bytes b)) /\ (len b = 8 -> proper (udp_from_bytes b)) /\
  (len b = 32 -> proper (pi_from_bytes b)).
Proof. exact Roundtrip.DecodersTotal.from_bytes_total. Qed.
Print Assumptions C08_from_bytes_total.

Example C08_decoders_total_ex :
  ah_read ([17; 300] ++ repeat 0 10) = Err EPanic /\
  ah_from_slice [17; 2; 0; 0; 0; 0; 0; 1; 0; 0; 0; 2; 1; 2; 3] = Err ELen /\
  ah_read [17; 2; 0; 0; 0; 0; 0; 1; 0; 0; 0; 2; 1; 2; 3] = Err EIo /\
  Tcp.from_slice (repeat 0 12 ++ [64] ++ repeat 0 7) = Err (EContent 4) /\
  iph_read [69] = Err EIo /\ iph_read [64] = Err (EContent 0) /\
  iph_from_slice [96; 0; 0; 0; 0; 8; 0; 64] = Err ELen.
Proof. repeat split; vm_compute; reflexivity. Qed.

(* ---- Ipv4Header::write, without the range hypothesis of C08_Ipv4_write_recomputes ------------- *)
(* write = to_bytes of the header with header_checksum := calc_header_checksum(); the computed checksum IS
   a u16; header_len bytes; equal to to_bytes(h) exactly when the field was consistent *)
Theorem C08_Ipv4_write_recomputes_full : forall e h out, wf_ip4 h = true ->
  exists ck b, ip4_calc_checksum e h = Some ck /\ ck < 65536
    /\ ip4_to_bytes (ip4_set_checksum h ck) = Some b /\ ip4_write e out h = Some (out ++ b)
    /\ len b = ip4_header_len h
    /\ (i4_header_checksum h = ck -> ip4_to_bytes h = Some b).
Proof. exact Roundtrip.AuditFollowup.ip4_write_recomputes_full. Qed.
Print Assumptions C08_Ipv4_write_recomputes_full.

Example C08_Ipv4_write_recomputes_full_ex :
  wf_ip4 IPV4.ex_stale = true /\ ip4_calc_checksum Checksum.Model.LE IPV4.ex_stale = Some 12704 /\ i4_header_checksum IPV4.ex_stale = 0.
Proof. repeat split; vm_compute; reflexivity. Qed.

(* ---- IpHeaders::read of a written value, ANY continuation ------------------------------------ *)
(* C08_IpHeaders_dec_enc has the read half for IPv6 under iph_read_room h rest
   (payload_length - length of the extensions <= len rest: the reader still holds the announced payload),
   a hypothesis inherited from C12's read_limited theorems, not a property of the code: IpHeaders::read
   never looks at the payload.  Without it: for every well-formed value and every continuation of bytes --
   also a Cursor that ends right behind the headers -- read returns the written value, the final number
   and leaves exactly `rest` (a successful run of read_limited does not depend on the budget that is left
   over: Roundtrip/IpHeadersReadAny.mono_read6). *)
Theorem C08_IpHeaders_read_any : forall en h, iph_wf h = true ->
  exists w, iph_write en h = (w, ExtChain.Model.Ok tt) /\ len w = iph_header_len h
    /\ (forall rest, bytes_ok rest -> iph_read (w ++ rest) = Ok (iph_written en h, iph_final h, rest)).
Proof. exact Roundtrip.IpHeadersReadAny.iph_read_any. Qed.
Print Assumptions C08_IpHeaders_read_any.

(* non-vacuity: IPHEADERS.ex_v6 announces 18 payload bytes; the reader ends behind the headers / one byte
   later -- outside iph_read_room, accepted *)
Example C08_IpHeaders_read_any_ex :
  iph_wf IPHEADERS.ex_v6 = true /\ ~ iph_read_room IPHEADERS.ex_v6 [9] /\
  iph_read IPHEADERS.ex_v6_bytes = Ok (IPHEADERS.ex_v6, 17, []) /\
  iph_read (IPHEADERS.ex_v6_bytes ++ [9]) = Ok (IPHEADERS.ex_v6, 17, [9]).
Proof.
  split; [vm_compute; reflexivity|].
  split; [intros H; vm_compute in H; apply H; reflexivity|].
  split; vm_compute; reflexivity.
Qed.

(* ---- Ipv6Extensions: decode(encode) with the reader (was C08_Exts6_dec_enc_partial) ------------ *)
(* C12 has since modelled Ipv6Extensions::read (ExtChain/ReadModel.v: read6 over C16's reader).  Every valid
   struct whose chain walks to a non-extension number, any bytes behind: write emits header_len bytes,
   from_slice returns the struct, the number and the rest, and read over a Cursor returns the same struct
   and number, has pulled exactly the written bytes and leaves the rest. *)
Theorem C08_Exts6_dec_enc : forall e first bs n rest, ExtChain.Model.exts6_valid e = true ->
  ExtChain.Model.write e first = (bs, ExtChain.Model.Ok tt) -> ExtChain.Model.next_header e first = ExtChain.Model.Ok n ->
  ExtChain.Spec.is_ext_number n = false -> bytes_ok rest ->
  len bs = ExtChain.Model.header_len e /\
  ExtChain.Model.from_slice first (bs ++ rest) = ExtChain.Model.Ok (e, n, rest) /\
  exists s', ExtChain.ReadModel.read6 false first (IoFault.Model.mk_rstate (ExtChain.ReadModel.cursor (bs ++ rest)) None)
             = (IoFault.Model.QOk (e, n), IoFault.Model.mk_rstate s' None)
             /\ IoFault.Spec.src_data s' = rest /\ IoFault.Spec.src_pulled s' = len bs.
Proof. exact Roundtrip.AuditFollowup.exts6_dec_enc_read. Qed.
Print Assumptions C08_Exts6_dec_enc.

Example C08_Exts6_dec_enc_ex :
  let e := ExtChain.Model.mkExts6 (Some (ExtChain.Model.mkRaw 44 0 [1; 2; 3; 4; 5; 6])) None None
             (Some (ExtChain.Model.mkFrag 17 1 true 1)) None in
  ExtChain.Model.exts6_valid e = true /\
  ExtChain.Model.write e 0 = ([44;0;1;2;3;4;5;6] ++ [17;0;0;9;0;0;0;1], ExtChain.Model.Ok tt) /\
  ExtChain.Model.next_header e 0 = ExtChain.Model.Ok 17 /\ ExtChain.Spec.is_ext_number 17 = false.
Proof. vm_compute. repeat split; reflexivity. Qed.

(* ---- UdpHeader::from_bytes (not in C08_Udp_dec_enc) ------------------------------------------- *)
Theorem C08_Udp_from_bytes : forall h, wf_udp h = true -> udp_from_bytes (udp_to_bytes h) = Ok h.
Proof. exact Roundtrip.AuditFollowup.udp_from_bytes_dec_enc. Qed.
Print Assumptions C08_Udp_from_bytes.
End AUDIT1.
(* ==== end audit follow-up ==== *)

(* ==== round3 c08id begin ==== *)
(* Audit round 3, top-12 item 12 (notes/AUDIT_round3.md, section C08):
   (a) EXACT idempotence for IpHeaders (Roundtrip/IpHeadersIdem.v), (b) a POSITIONAL mask for
   Ipv6Extensions replacing the relation hdr_eq + the serialiser agreement (Roundtrip/Exts6Mask.v), carried
   over to IpHeaders, (c) explicit idempotence for ArpEthIpv4Packet (Roundtrip/ArpIdem.v).
   Compositions of the existing models only; no new model of Rust code. *)
From EP Require Roundtrip.IpHeadersIdem Roundtrip.ArpIdem Roundtrip.Exts6Mask.
Module ROUND3.
Import Checksum.Model Roundtrip.Common Roundtrip.Ipv4 Roundtrip.Ipv6 Roundtrip.Exts4 Roundtrip.Exts4Proofs Roundtrip.Arp.
Import Roundtrip.IpHeaders Roundtrip.IpHeadersProofs Roundtrip.IpHeadersIdem.

(* ---- (a) IpHeaders: the written value IS the decoded value <-> the wire checksum is right ---------- *)
(* For every accepted byte string: `iph_written en h` (what C08_IpHeaders_enc_dec / _dec_enc / _read_any
   return) is EQUAL (Leibniz, not only PartialEq) to the decoded h exactly when the header checksum field is
   the one calc_header_checksum() computes; that field is bytes 10-11 of the input (IPv4; IPv6 has none and
   the equality always holds). *)
Theorem C08_IpHeaders_written_exact : forall en bs h p, bytes_ok bs -> iph_from_slice bs = Ok (h, p) ->
  (iph_checksum_ok en h = true <-> iph_written en h = h)
  /\ (forall hd e, h = IpV4 hd e -> iph_wire_checksum bs = Some (i4_header_checksum hd)).
Proof. exact iph_written_exact. Qed.
Print Assumptions C08_IpHeaders_written_exact.

(* clause D at full strength: decode(write(decode bs) ++ payload ++ t) = decode bs, value AND payload
   description, holds exactly when the wire checksum is right (else the checksum field differs and nothing
   else: C08_IpHeaders_enc_dec) *)
Theorem C08_IpHeaders_idempotent : forall en bs h p, bytes_ok bs -> iph_from_slice bs = Ok (h, p) ->
  exists w cons t, iph_write en h = (w, ExtChain.Model.Ok tt) /\ len w = iph_header_len h
    /\ bs = cons ++ ipp_payload p ++ t /\ len cons = iph_header_len h
    /\ iph_reencodes en h cons w
    /\ (iph_from_slice (w ++ ipp_payload p ++ t) = Ok (h, p) <-> iph_checksum_ok en h = true).
Proof. exact iph_idempotent. Qed.
Print Assumptions C08_IpHeaders_idempotent.

(* non-vacuity: the same header with the right checksum (102;210) and with a wrong one (1;2) *)
Example C08_IpHeaders_idempotent_ex :
  match iph_from_slice ([69;0;0;24; 0;1;0;0; 64;17;102;210; 10;0;0;1; 10;0;0;2] ++ [9;9;9;9]) with
  | Ok (h, p) => iph_checksum_ok LE h = true /\ iph_written LE h = h
                 /\ iph_from_slice (fst (iph_write LE h) ++ ipp_payload p) = Ok (h, p)
  | _ => False
  end /\
  match iph_from_slice ([69;0;0;24; 0;1;0;0; 64;17;1;2; 10;0;0;1; 10;0;0;2] ++ [9;9;9;9]) with
  | Ok (h, p) => iph_checksum_ok LE h = false /\ iph_written LE h <> h
                 /\ iph_wire_checksum ([69;0;0;24; 0;1;0;0; 64;17;1;2; 10;0;0;1; 10;0;0;2] ++ [9;9;9;9]) = Some 258
  | _ => False
  end.
Proof.
  split.
  - vm_compute. repeat split; reflexivity.
  - vm_compute. split; [reflexivity|]. split; [intros E; discriminate E|reflexivity].
Qed.

(* ---- (b) carried over to IpHeaders: positional masks ------------------------------------------------ *)
(* iph_reencodes_pos = iph_reencodes with the IPv6 extension area compared under the positional mask
   Exts6Mask.x6_keep_mask (no hdr_eq); and with a right wire checksum ONE mask for the whole header area:
   iph_keep_mask h = ip4_keep_mask ++ x4_keep_mask resp. ones 40 ++ x6_keep_mask *)
Theorem C08_IpHeaders_enc_dec_mask : forall en bs h p, bytes_ok bs -> iph_from_slice bs = Ok (h, p) ->
  exists w cons t, iph_write en h = (w, ExtChain.Model.Ok tt) /\ len w = iph_header_len h
    /\ bs = cons ++ ipp_payload p ++ t /\ len cons = iph_header_len h
    /\ iph_reencodes_pos en h cons w
    /\ len (iph_keep_mask h) = iph_header_len h
    /\ (iph_checksum_ok en h = true -> agree (iph_keep_mask h) w cons).
Proof. exact iph_enc_dec_mask. Qed.
Print Assumptions C08_IpHeaders_enc_dec_mask.

Example C08_IpHeaders_enc_dec_mask_ex :
  match iph_from_slice ([96;0;0;0; 0;10; 44; 64] ++ repeat 1 16 ++ repeat 2 16 ++ [17;170;0;15;0;0;0;1] ++ [9;9]) with
  | Ok (h, p) => iph_keep_mask h = repeat 255 40 ++ [255; 0; 255; 249; 255; 255; 255; 255]
                 /\ iph_checksum_ok LE h = true
  | _ => False
  end.
Proof. vm_compute. split; reflexivity. Qed.

(* ... and ONE positional mask for EVERY accepted byte string, the checksum hypothesis moved into the mask:
   iph_keep_mask_ck ok h = iph_keep_mask h when the wire checksum is right, else the same mask with bytes
   10-11 (the IPv4 header checksum that write recomputes) cleared as well *)
Theorem C08_IpHeaders_enc_dec_mask_any : forall en bs h p, bytes_ok bs -> iph_from_slice bs = Ok (h, p) ->
  exists w cons t, iph_write en h = (w, ExtChain.Model.Ok tt) /\ bs = cons ++ ipp_payload p ++ t
    /\ agree (iph_keep_mask_ck (iph_checksum_ok en h) h) w cons.
Proof. exact iph_enc_dec_mask_any. Qed.
Print Assumptions C08_IpHeaders_enc_dec_mask_any.

Example C08_IpHeaders_enc_dec_mask_any_ex :
  match iph_from_slice ([69;0;0;24; 0;1;128;0; 64;17;1;2; 10;0;0;1; 10;0;0;2] ++ [9;9;9;9]) with
  | Ok (h, p) => iph_checksum_ok LE h = false
                 /\ iph_keep_mask_ck false h = [255;255;255;255; 255;255;127;255; 255;255;0;0] ++ repeat 255 8
                 /\ iph_keep_mask_ck true h = [255;255;255;255; 255;255;127;255] ++ repeat 255 12
  | _ => False
  end.
Proof. vm_compute. repeat split; reflexivity. Qed.

(* ---- (c) ArpEthIpv4Packet: explicit idempotence and the rejection classes of try_eth_ipv4 ---------- *)
(* every accepted byte string whose ArpPacket converts: the view's 28 bytes are the first 28 input bytes and
   decoding them again (from_slice and read, ANY bytes behind) returns THE SAME ArpPacket, hence the same view;
   to_arp_packet of the view is that packet *)
Theorem C08_ArpEthIpv4_idempotent : forall bs p v, bytes_ok bs -> arp_from_slice bs = Ok p ->
  arp_try_eth_ipv4 p = Ok v ->
  wf_ae v = true /\ len (ae_to_bytes v) = 28 /\ bs = ae_to_bytes v ++ drop 28 bs
  /\ ae_to_arp_packet v = Some p
  /\ forall rest, arp_from_slice (ae_to_bytes v ++ rest) = Ok p
                  /\ arp_read (ae_to_bytes v ++ rest) = Ok (p, rest)
                  /\ drop 28 (ae_to_bytes v ++ rest) = rest.
Proof. exact Roundtrip.ArpIdem.ae_idempotent. Qed.
Print Assumptions C08_ArpEthIpv4_idempotent.

(* try_eth_ipv4 on every well-formed (so every decoded) ArpPacket: Ok exactly for hardware type 1, protocol
   type 0x0800, sizes 6 / 4; otherwise the error names the first differing field in that order
   (EContent 0..3 = NonMatchingHwType, ProtocolType, HwAddrSize, ProtoAddrSize); never an undefined read *)
Theorem C08_ArpEthIpv4_try_classes : forall p, wf_arp p = true ->
  match arp_try_eth_ipv4 p with
  | Ok v => arp_hw_addr_type p = 1 /\ arp_proto_addr_type p = 2048 /\ arp_hw_addr_size p = 6
            /\ arp_proto_addr_size p = 4 /\ wf_ae v = true /\ ae_operation v = arp_operation p
  | Err (EContent 0) => arp_hw_addr_type p <> 1
  | Err (EContent 1) => arp_hw_addr_type p = 1 /\ arp_proto_addr_type p <> 2048
  | Err (EContent 2) => arp_hw_addr_type p = 1 /\ arp_proto_addr_type p = 2048 /\ arp_hw_addr_size p <> 6
  | Err (EContent 3) => arp_hw_addr_type p = 1 /\ arp_proto_addr_type p = 2048 /\ arp_hw_addr_size p = 6
                        /\ arp_proto_addr_size p <> 4
  | Err _ => False
  end.
Proof. exact Roundtrip.ArpIdem.ae_try_classes. Qed.
Print Assumptions C08_ArpEthIpv4_try_classes.

Example C08_ArpEthIpv4_idempotent_ex :
  let bs := [0;1; 8;0; 6; 4; 0;2; 1;2;3;4;5;6; 10;0;0;1; 7;8;9;10;11;12; 10;0;0;2] ++ [99; 98] in
  match arp_from_slice bs with
  | Ok p => match arp_try_eth_ipv4 p with
            | Ok v => ae_to_bytes v = take 28 bs /\ arp_from_slice (ae_to_bytes v ++ [5]) = Ok p
            | _ => False
            end
  | _ => False
  end /\
  match arp_from_slice [0;6; 8;0; 6; 4; 0;2; 1;2;3;4;5;6; 10;0;0;1; 7;8;9;10;11;12; 10;0;0;2] with
  | Ok p => wf_arp p = true /\ arp_try_eth_ipv4 p = Err (EContent 0)
  | _ => False
  end.
Proof. vm_compute. repeat split; reflexivity. Qed.
End ROUND3.

(* ---- (b) Ipv6Extensions (imports shadow Ok / Err: own module) -------------------------------------- *)
Module ROUND3_X6.
Import ExtChain.Spec ExtChain.Model Roundtrip.Exts6Mask.

(* A: Ipv6Extensions has ONE serialiser, write (-> write_internal; no to_bytes, no write_to_slice; IpHeaders::write
   and the packet builder call the same function).  x6_chain e first = the headers in the order of the
   next_header links (the loop of write_internal with each write replaced by the header written).  For every
   valid struct and first ip number: the bytes in the Vec -- also when write ends in an error -- are the
   to_bytes() of the chain's headers in that order, each header_len() long; when write succeeds they are
   header_len(e) bytes, the chain is a permutation of the headers the struct holds (each present header is
   written exactly once), and the positional mask has the same length. *)
Theorem C08_Exts6_ser_agree : forall e first, exts6_valid e = true ->
  fst (write e first) = parts_bytes (x6_chain e first)
  /\ Forall (fun p => part_to_bytes p = Some (part_bytes p) /\ len (part_bytes p) = part_len p)
            (x6_chain e first)
  /\ (snd (write e first) = Ok tt ->
      len (fst (write e first)) = header_len e /\ Permutation.Permutation (x6_chain e first) (x6_present e)
      /\ len (x6_keep_mask e first) = header_len e).
Proof. exact exts6_ser_agree. Qed.
Print Assumptions C08_Exts6_ser_agree.

(* C with a POSITIONAL mask (replaces hdr_eq of C08_Exts6_enc_dec): x6_keep_mask e first = concatenation, in
   chain order, of the parts' own masks -- all ones for a raw header (hop-by-hop, destination options,
   routing), Frag.frag_keep_mask = [255;0;255;249;255;255;255;255] for the fragment header, Auth.ah_keep_mask
   = [255;255;0;0] ++ ones for the authentication header (C08_Exts6_part_masks): every masked bit sits at a
   fixed offset in a header that starts at the sum of the lengths of the parts before it.  Every accepted
   byte string (also chains on which the decoder stops in front of a repeated header). *)
Theorem C08_Exts6_enc_dec_mask : forall first bs e n r, bytes_ok bs -> from_slice first bs = Ok (e, n, r) ->
  exts6_valid e = true /\
  exists bs' cons, write e first = (bs', Ok tt) /\ next_header e first = Ok n
    /\ bs = cons ++ r /\ Roundtrip.Common.agree (x6_keep_mask e first) bs' cons
    /\ bs' = parts_bytes (x6_chain e first) /\ len bs' = header_len e
    /\ forall t, from_slice first (bs' ++ t) = Ok (e, n, t).
Proof. exact exts6_enc_dec_mask. Qed.
Print Assumptions C08_Exts6_enc_dec_mask.

Theorem C08_Exts6_part_masks : forall e first,
  x6_keep_mask e first = flat_map part_mask (x6_chain e first) /\
  (forall h, part_mask (PRaw h) = Roundtrip.Common.ones (raw_header_len h)) /\
  (forall h, part_mask (PFrag h) = [255; 0; 255; 249; 255; 255; 255; 255]) /\
  (forall h, part_mask (PAuth h) = [255; 255; 0; 0] ++ Roundtrip.Common.ones (auth_header_len h - 4)).
Proof. exact (fun e first => conj eq_refl (conj part_mask_raw (conj part_mask_frag part_mask_auth))). Qed.
Print Assumptions C08_Exts6_part_masks.

(* non-vacuity: hop-by-hop -> fragment (reserved byte 170, reserved bits of byte 3 set) -> AH (reserved 9;9);
   and the same three headers linked AH -> fragment: the mask follows the chain, not the struct *)
Example C08_Exts6_mask_ex :
  let bs := [44;0;1;2;3;4;5;6] ++ [51;170;0;15;0;0;0;1] ++ [17;2;9;9; 0;0;0;1; 0;0;0;2; 1;2;3;4] ++ [7] in
  match from_slice 0 bs with
  | Ok (e, n, r) =>
    n = 17 /\ r = [7]
    /\ x6_chain e 0 = [PRaw (mkRaw 44 0 [1;2;3;4;5;6]); PFrag (mkFrag 51 1 true 1); PAuth (mkAuth 17 1 2 1 [1;2;3;4])]
    /\ x6_keep_mask e 0 = repeat 255 8 ++ [255;0;255;249;255;255;255;255] ++ [255;255;0;0] ++ repeat 255 12
    /\ fst (write e 0) = [44;0;1;2;3;4;5;6] ++ [51;0;0;9;0;0;0;1] ++ [17;2;0;0; 0;0;0;1; 0;0;0;2; 1;2;3;4]
  | _ => False
  end /\
  let bs2 := [51;0;1;2;3;4;5;6] ++ [44;2;9;9; 0;0;0;1; 0;0;0;2; 1;2;3;4] ++ [17;170;0;15;0;0;0;1] in
  match from_slice 0 bs2 with
  | Ok (e, n, r) =>
    n = 17 /\ r = []
    /\ x6_keep_mask e 0 = repeat 255 8 ++ [255;255;0;0] ++ repeat 255 12 ++ [255;0;255;249;255;255;255;255]
  | _ => False
  end.
Proof. vm_compute. repeat split; reflexivity. Qed.
End ROUND3_X6.
(* ==== round3 c08id end ==== *)
