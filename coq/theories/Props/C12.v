(* Props/C12.v -- property C12: extension-header chain bookkeeping is
   self-consistent.  Only statements; every proof is `exact <lemma>`.

   State space: the record of six optional headers (Exts6: hop-by-hop,
   destination options, routing{+ final destination options}, fragment,
   auth) with ARBITRARY next_header contents, arbitrary payload / ICV sizes
   (every multiple the header formats allow) and an arbitrary first-header
   value.  `exts6_valid` is the type invariant of the Rust structs (u8/u13/u32
   ranges, payload length = what the private length field says).  *)
From EP Require Import Base.Bytes ExtChain.Spec ExtChain.Model ExtChain.View ExtChain.Proofs.
Local Open Scope N_scope.

(* ------------------------------------------------------------------ *)
(* Ipv6Extensions *)

(* set_next_headers + next_header: linking to a non-extension number n walks to n *)
Theorem C12_link_walks : forall e n, is_ext_number n = false ->
  next_header (fst (set_next_headers e n)) (snd (set_next_headers e n)) = Ok n.
Proof. exact link_walks. Qed.
Print Assumptions C12_link_walks.

(* ... the links set are those of the RFC 8200 4.1 order (Spec.linked over the
   present headers in Spec.rfc8200_order), for every n *)
Theorem C12_link_rfc_order : forall e n,
  linked (snd (set_next_headers e n)) (in_rfc_order (get_nh (fst (set_next_headers e n)))) n.
Proof. exact set_next_headers_linked. Qed.
Print Assumptions C12_link_rfc_order.

(* ... and write visits the headers in exactly that order: the bytes are the
   RFC wire formats (the wire_ functions of Spec) of the present headers in RFC 8200 order *)
Theorem C12_link_write_order : forall e n, exts6_valid e = true -> is_ext_number n = false ->
  write (fst (set_next_headers e n)) (snd (set_next_headers e n))
  = (rfc_order_bytes (fst (set_next_headers e n)), Ok tt).
Proof. exact link_write_order. Qed.
Print Assumptions C12_link_write_order.

(* write succeeds exactly when next_header succeeds, same error otherwise;
   neither panics (unwrap) nor loops (fuel) -- for every chain, consistent or not *)
Theorem C12_write_iff_walk : forall e first, exts6_valid e = true ->
  match next_header e first with
  | Ok n => snd (write e first) = Ok tt
  | Err x => snd (write e first) = Err x
  | Panic | OutOfFuel => False
  end.
Proof. exact write_iff_walk. Qed.
Print Assumptions C12_write_iff_walk.

(* bytes written = header_len: no present header is dropped, none written twice *)
Theorem C12_write_len : forall e first bs, exts6_valid e = true ->
  write e first = (bs, Ok tt) -> len bs = header_len e.
Proof. exact write_len. Qed.
Print Assumptions C12_write_len.

(* decoding the written bytes gives the same struct, the same final number, no rest *)
Theorem C12_decode_write : forall e first bs n, exts6_valid e = true ->
  write e first = (bs, Ok tt) -> next_header e first = Ok n -> is_ext_number n = false ->
  from_slice first bs = Ok (e, n, []).
Proof. exact decode_write. Qed.
Print Assumptions C12_decode_write.

(* an inconsistent chain is reported with a header that really is in the struct *)
Theorem C12_error_truth : forall e first x, next_header e first = Err x -> error_true e x.
Proof. exact error_truth. Qed.
Print Assumptions C12_error_truth.

(* ------------------------------------------------------------------ *)
(* Ipv4Extensions (only the authentication header) *)

Theorem C12_v4_link_walks : forall e n,
  next_header4 (fst (set_next_headers4 e n)) (snd (set_next_headers4 e n)) = Ok n.
Proof. exact link_walks4. Qed.
Print Assumptions C12_v4_link_walks.

Theorem C12_v4_link_rfc_order : forall e n,
  linked (snd (set_next_headers4 e n)) (in_rfc_order (get_nh4 (fst (set_next_headers4 e n)))) n.
Proof. exact set_next_headers4_linked. Qed.
Print Assumptions C12_v4_link_rfc_order.

Theorem C12_v4_link_write_order : forall e n, exts4_valid e = true ->
  write4 (fst (set_next_headers4 e n)) (snd (set_next_headers4 e n))
  = (rfc_order_bytes4 (fst (set_next_headers4 e n)), Ok tt).
Proof. exact link_write_order4. Qed.
Print Assumptions C12_v4_link_write_order.

Theorem C12_v4_write_iff_walk : forall e first, exts4_valid e = true ->
  match next_header4 e first with
  | Ok n => snd (write4 e first) = Ok tt
  | Err x => snd (write4 e first) = Err x
  | Panic | OutOfFuel => False
  end.
Proof. exact write4_iff_walk. Qed.
Print Assumptions C12_v4_write_iff_walk.

Theorem C12_v4_write_len : forall e first bs, exts4_valid e = true ->
  write4 e first = (bs, Ok tt) -> len bs = header_len4 e.
Proof. exact write4_len. Qed.
Print Assumptions C12_v4_write_len.

Theorem C12_v4_decode_write : forall e first bs n, exts4_valid e = true ->
  write4 e first = (bs, Ok tt) -> next_header4 e first = Ok n -> is_ext_number_v4 n = false ->
  from_slice4 first bs = Ok (e, n, []).
Proof. exact decode_write4. Qed.
Print Assumptions C12_v4_decode_write.

Theorem C12_v4_error_truth : forall e first x, next_header4 e first = Err x ->
  x = ExtNotReferenced (ip_number_of KAuth) /\ is_some (auth4 e) = true.
Proof. exact error_truth4. Qed.
Print Assumptions C12_v4_error_truth.

(* ------------------------------------------------------------------ *)
(* IpHeaders::set_next_headers / NetHeaders::try_set_next_headers *)

Theorem C12_ether_type : forall h n,
  snd (ip_set_next_headers h n) = ether_type_of_version h /\
  net_try_set_next_headers (net_of_ip h) n
  = (net_of_ip (fst (ip_set_next_headers h n)), Ok (ether_type_of_version h)) /\
  net_try_set_next_headers NetArp n = (NetArp, Err ArpHeader).
Proof.
  exact (fun h n => conj (ip_set_next_headers_ether_type h n)
                         (conj (net_try_set_next_headers_ether_type h n)
                               (net_try_set_next_headers_arp n))).
Qed.
Print Assumptions C12_ether_type.

Theorem C12_ip_link_walks : forall h n, ip_is_ext h n = false ->
  ip_next_header (fst (ip_set_next_headers h n)) = Ok n.
Proof. exact ip_link_walks. Qed.
Print Assumptions C12_ip_link_walks.

(* ------------------------------------------------------------------ *)
(* statement pins *)
Check (C12_link_walks : forall e n, is_ext_number n = false ->
  next_header (fst (set_next_headers e n)) (snd (set_next_headers e n)) = Ok n).
Check (C12_decode_write : forall e first bs n, exts6_valid e = true ->
  write e first = (bs, Ok tt) -> next_header e first = Ok n -> is_ext_number n = false ->
  from_slice first bs = Ok (e, n, [])).
Check (C12_write_len : forall e first bs, exts6_valid e = true ->
  write e first = (bs, Ok tt) -> len bs = header_len e).

(* ------------------------------------------------------------------ *)
(* non-vacuity: a chain with all six headers, payloads of 6, 14 and 22 bytes,
   an ICV of 8 bytes; next_header fields deliberately wrong before linking *)
Definition ex_raw (nh hl fill : N) : RawExt :=
  mkRaw nh hl (repeat fill (N.to_nat (6 + hl * 8))).
Definition ex_all : Exts6 :=
  mkExts6 (Some (ex_raw 7 0 1)) (Some (ex_raw 0 1 2))
          (Some (mkRouting (ex_raw 60 2 3) (Some (ex_raw 44 0 4))))
          (Some (mkFrag 43 8191 true 4294967295))
          (Some (mkAuth 51 305419896 4294967295 2 [9; 8; 7; 6; 5; 4; 3; 2])).

Example C12_ex_valid : exts6_valid ex_all = true /\ is_ext_number 17 = false.
Proof. split; vm_compute; reflexivity. Qed.

(* linked to UDP (17): first header is hop-by-hop (0), the walk ends at 17,
   52 + 20 = 8+16+24+8+20+8 bytes are written and decode to the same struct *)
Example C12_ex_linked :
  let e := fst (set_next_headers ex_all 17) in
  snd (set_next_headers ex_all 17) = 0 /\
  next_header e 0 = Ok 17 /\
  snd (write e 0) = Ok tt /\ len (fst (write e 0)) = 84 /\ header_len e = 84 /\
  fst (write e 0) = rfc_order_bytes e /\
  from_slice 0 (fst (write e 0)) = Ok (e, 17, []).
Proof. vm_compute. repeat split; reflexivity. Qed.

(* a consistent chain that is NOT in RFC order (auth first, then routing, final
   destination options, fragment) also round-trips: hypotheses of
   C12_decode_write are satisfiable by chains set_next_headers never builds *)
Definition ex_perm : Exts6 :=
  mkExts6 None None
          (Some (mkRouting (ex_raw 60 1 3) (Some (ex_raw 44 0 4))))
          (Some (mkFrag 6 0 false 7))
          (Some (mkAuth 43 1 2 0 [])).
Example C12_ex_perm :
  exts6_valid ex_perm = true /\ next_header ex_perm 51 = Ok 6 /\ is_ext_number 6 = false /\
  snd (write ex_perm 51) = Ok tt /\
  from_slice 51 (fst (write ex_perm 51)) = Ok (ex_perm, 6, []).
Proof. vm_compute. repeat split; reflexivity. Qed.

(* inconsistent chains: the unlinked ex_all is refused by both walkers with the same error;
   first header 0 without a hop-by-hop header (finding F3, repaired) is Ok 0 for both *)
Example C12_ex_broken :
  next_header ex_all 0 = Err (ExtNotReferenced 60) /\
  snd (write ex_all 0) = Err (ExtNotReferenced 60) /\
  next_header ex_all 60 = Err HopByHopNotAtStart /\
  snd (write ex_all 60) = Err HopByHopNotAtStart /\
  next_header ex_perm 0 = Err (ExtNotReferenced 43) /\
  next_header exts6_default 0 = Ok 0 /\ write exts6_default 0 = ([], Ok tt).
Proof. vm_compute. repeat split; reflexivity. Qed.

(* why C12_decode_write needs `is_ext_number n = false`: a chain that stops on
   an extension number whose header is absent writes fine but the decoder
   goes on reading *)
Example C12_ex_needs_non_ext :
  let e := mkExts6 None None None (Some (mkFrag 51 0 false 0)) None in
  next_header e 44 = Ok 51 /\ snd (write e 44) = Ok tt /\
  from_slice 44 (fst (write e 44)) <> Ok (e, 51, []).
Proof. vm_compute. repeat split; try reflexivity. discriminate. Qed.

Example C12_ex_v4 :
  let e := mkExts4 (Some (mkAuth 0 1 2 1 [1; 2; 3; 4])) in
  exts4_valid e = true /\ is_ext_number_v4 0 = false /\
  set_next_headers4 e 6 = (mkExts4 (Some (mkAuth 6 1 2 1 [1; 2; 3; 4])), 51) /\
  next_header4 e 51 = Ok 0 /\ next_header4 e 6 = Err (ExtNotReferenced 51) /\
  from_slice4 51 (fst (write4 e 51)) = Ok (e, 0, []).
Proof. vm_compute. repeat split; reflexivity. Qed.

Example C12_ex_ether :
  ip_is_ext (Ipv6 59 ex_all) 17 = false /\
  ip_next_header (fst (ip_set_next_headers (Ipv6 59 ex_all) 17)) = Ok 17 /\
  ip_next_header (Ipv6 59 ex_all) = Err (Ipv6Exts (ExtNotReferenced 0)) /\
  snd (ip_set_next_headers (Ipv6 59 ex_all) 17) = 34525 /\
  snd (ip_set_next_headers (Ipv4 0 0 (mkExts4 None)) 17) = 2048.
Proof. vm_compute. repeat split; reflexivity. Qed.
