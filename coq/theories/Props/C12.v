(* Props/C12.v -- property C12: extension-header chain bookkeeping is
   self-consistent.  Only statements; every proof is `exact <lemma>`.

   State space: the record of six optional headers (Exts6: hop-by-hop,
   destination options, routing{+ final destination options}, fragment,
   auth) with ARBITRARY next_header contents, arbitrary payload / ICV sizes
   (every multiple the header formats allow) and an arbitrary first-header
   value.  `exts6_valid` is the type invariant of the Rust structs (u8/u13/u32
   ranges, payload length = what the private length field says).  *)
From EP Require Parse.ConstsAllOk.   (* every numeric `pub const` of the crate, regenerated from the source on every run, has its RFC / IANA value *)
From EP Require Import Base.Bytes ExtChain.Spec ExtChain.Model ExtChain.View ExtChain.Proofs.
Local Open Scope N_scope.

(* ------------------------------------------------------------------ *)
(* Ipv6Extensions *)

(* set_next_headers + next_header: linking to a non-extension number n walks to n *)
Theorem C12_link_walks : forall e n, is_ext_number n = false ->
  next_header (fst (set_next_headers e n)) (snd (set_next_headers e n)) = Ok n.
Proof. exact link_walks. Qed.
Print Assumptions C12_link_walks.

(* ... the links set are those of the RFC 8200 4.1 order (Spec.linked over the
   present headers in Spec.rfc8200_order), for every n *)
Theorem C12_link_rfc_order : forall e n,
  linked (snd (set_next_headers e n)) (in_rfc_order (get_nh (fst (set_next_headers e n)))) n.
Proof. exact set_next_headers_linked. Qed.
Print Assumptions C12_link_rfc_order.

(* ... and write visits the headers in exactly that order: the bytes are the
   RFC wire formats (the wire_ functions of Spec) of the present headers in RFC 8200 order *)
Theorem C12_link_write_order : forall e n, exts6_valid e = true -> is_ext_number n = false ->
  write (fst (set_next_headers e n)) (snd (set_next_headers e n))
  = (rfc_order_bytes (fst (set_next_headers e n)), Ok tt).
Proof. exact link_write_order. Qed.
Print Assumptions C12_link_write_order.

(* write succeeds exactly when next_header succeeds, same error otherwise;
   neither panics (unwrap) nor loops (fuel) -- for every chain, consistent or not *)
Theorem C12_write_iff_walk : forall e first, exts6_valid e = true ->
  match next_header e first with
  | Ok n => snd (write e first) = Ok tt
  | Err x => snd (write e first) = Err x
  | Panic | OutOfFuel => False
  end.
Proof. exact write_iff_walk. Qed.
Print Assumptions C12_write_iff_walk.

(* bytes written = header_len: no present header is dropped, none written twice *)
Theorem C12_write_len : forall e first bs, exts6_valid e = true ->
  write e first = (bs, Ok tt) -> len bs = header_len e.
Proof. exact write_len. Qed.
Print Assumptions C12_write_len.

(* decoding the written bytes gives the same struct, the same final number, no rest *)
Theorem C12_decode_write : forall e first bs n, exts6_valid e = true ->
  write e first = (bs, Ok tt) -> next_header e first = Ok n -> is_ext_number n = false ->
  from_slice first bs = Ok (e, n, []).
Proof. exact decode_write. Qed.
Print Assumptions C12_decode_write.

(* an inconsistent chain is reported with a header that really is in the struct *)
Theorem C12_error_truth : forall e first x, next_header e first = Err x -> error_true e x.
Proof. exact error_truth. Qed.
Print Assumptions C12_error_truth.

(* ------------------------------------------------------------------ *)
(* Ipv4Extensions (only the authentication header) *)

Theorem C12_v4_link_walks : forall e n,
  next_header4 (fst (set_next_headers4 e n)) (snd (set_next_headers4 e n)) = Ok n.
Proof. exact link_walks4. Qed.
Print Assumptions C12_v4_link_walks.

Theorem C12_v4_link_rfc_order : forall e n,
  linked (snd (set_next_headers4 e n)) (in_rfc_order (get_nh4 (fst (set_next_headers4 e n)))) n.
Proof. exact set_next_headers4_linked. Qed.
Print Assumptions C12_v4_link_rfc_order.

Theorem C12_v4_link_write_order : forall e n, exts4_valid e = true ->
  write4 (fst (set_next_headers4 e n)) (snd (set_next_headers4 e n))
  = (rfc_order_bytes4 (fst (set_next_headers4 e n)), Ok tt).
Proof. exact link_write_order4. Qed.
Print Assumptions C12_v4_link_write_order.

Theorem C12_v4_write_iff_walk : forall e first, exts4_valid e = true ->
  match next_header4 e first with
  | Ok n => snd (write4 e first) = Ok tt
  | Err x => snd (write4 e first) = Err x
  | Panic | OutOfFuel => False
  end.
Proof. exact write4_iff_walk. Qed.
Print Assumptions C12_v4_write_iff_walk.

Theorem C12_v4_write_len : forall e first bs, exts4_valid e = true ->
  write4 e first = (bs, Ok tt) -> len bs = header_len4 e.
Proof. exact write4_len. Qed.
Print Assumptions C12_v4_write_len.

Theorem C12_v4_decode_write : forall e first bs n, exts4_valid e = true ->
  write4 e first = (bs, Ok tt) -> next_header4 e first = Ok n -> is_ext_number_v4 n = false ->
  from_slice4 first bs = Ok (e, n, []).
Proof. exact decode_write4. Qed.
Print Assumptions C12_v4_decode_write.

Theorem C12_v4_error_truth : forall e first x, next_header4 e first = Err x ->
  x = ExtNotReferenced (ip_number_of KAuth) /\ is_some (auth4 e) = true.
Proof. exact error_truth4. Qed.
Print Assumptions C12_v4_error_truth.

(* ------------------------------------------------------------------ *)
(* IpHeaders::set_next_headers / NetHeaders::try_set_next_headers *)

Theorem C12_ether_type : forall h n,
  snd (ip_set_next_headers h n) = ether_type_of_version h /\
  net_try_set_next_headers (net_of_ip h) n
  = (net_of_ip (fst (ip_set_next_headers h n)), Ok (ether_type_of_version h)) /\
  net_try_set_next_headers NetArp n = (NetArp, Err ArpHeader).
Proof.
  exact (fun h n => conj (ip_set_next_headers_ether_type h n)
                         (conj (net_try_set_next_headers_ether_type h n)
                               (net_try_set_next_headers_arp n))).
Qed.
Print Assumptions C12_ether_type.

Theorem C12_ip_link_walks : forall h n, ip_is_ext h n = false ->
  ip_next_header (fst (ip_set_next_headers h n)) = Ok n.
Proof. exact ip_link_walks. Qed.
Print Assumptions C12_ip_link_walks.

(* ------------------------------------------------------------------ *)
(* statement pins *)
Check (C12_link_walks : forall e n, is_ext_number n = false ->
  next_header (fst (set_next_headers e n)) (snd (set_next_headers e n)) = Ok n).
Check (C12_decode_write : forall e first bs n, exts6_valid e = true ->
  write e first = (bs, Ok tt) -> next_header e first = Ok n -> is_ext_number n = false ->
  from_slice first bs = Ok (e, n, [])).
Check (C12_write_len : forall e first bs, exts6_valid e = true ->
  write e first = (bs, Ok tt) -> len bs = header_len e).

(* ------------------------------------------------------------------ *)
(* non-vacuity: a chain with all six headers, payloads of 6, 14 and 22 bytes,
   an ICV of 8 bytes; next_header fields deliberately wrong before linking *)
Definition ex_raw (nh hl fill : N) : RawExt :=
  mkRaw nh hl (repeat fill (N.to_nat (6 + hl * 8))).
Definition ex_all : Exts6 :=
  mkExts6 (Some (ex_raw 7 0 1)) (Some (ex_raw 0 1 2))
          (Some (mkRouting (ex_raw 60 2 3) (Some (ex_raw 44 0 4))))
          (Some (mkFrag 43 8191 true 4294967295))
          (Some (mkAuth 51 305419896 4294967295 2 [9; 8; 7; 6; 5; 4; 3; 2])).

Example C12_ex_valid : exts6_valid ex_all = true /\ is_ext_number 17 = false.
Proof. split; vm_compute; reflexivity. Qed.

(* linked to UDP (17): first header is hop-by-hop (0), the walk ends at 17,
   52 + 20 = 8+16+24+8+20+8 bytes are written and decode to the same struct *)
Example C12_ex_linked :
  let e := fst (set_next_headers ex_all 17) in
  snd (set_next_headers ex_all 17) = 0 /\
  next_header e 0 = Ok 17 /\
  snd (write e 0) = Ok tt /\ len (fst (write e 0)) = 84 /\ header_len e = 84 /\
  fst (write e 0) = rfc_order_bytes e /\
  from_slice 0 (fst (write e 0)) = Ok (e, 17, []).
Proof. vm_compute. repeat split; reflexivity. Qed.

(* a consistent chain that is NOT in RFC order (auth first, then routing, final
   destination options, fragment) also round-trips: hypotheses of
   C12_decode_write are satisfiable by chains set_next_headers never builds *)
Definition ex_perm : Exts6 :=
  mkExts6 None None
          (Some (mkRouting (ex_raw 60 1 3) (Some (ex_raw 44 0 4))))
          (Some (mkFrag 6 0 false 7))
          (Some (mkAuth 43 1 2 0 [])).
Example C12_ex_perm :
  exts6_valid ex_perm = true /\ next_header ex_perm 51 = Ok 6 /\ is_ext_number 6 = false /\
  snd (write ex_perm 51) = Ok tt /\
  from_slice 51 (fst (write ex_perm 51)) = Ok (ex_perm, 6, []).
Proof. vm_compute. repeat split; reflexivity. Qed.

(* inconsistent chains: the unlinked ex_all is refused by both walkers with the same error;
   first header 0 without a hop-by-hop header (finding F3, repaired) is Ok 0 for both *)
Example C12_ex_broken :
  next_header ex_all 0 = Err (ExtNotReferenced 60) /\
  snd (write ex_all 0) = Err (ExtNotReferenced 60) /\
  next_header ex_all 60 = Err HopByHopNotAtStart /\
  snd (write ex_all 60) = Err HopByHopNotAtStart /\
  next_header ex_perm 0 = Err (ExtNotReferenced 43) /\
  next_header exts6_default 0 = Ok 0 /\ write exts6_default 0 = ([], Ok tt).
Proof. vm_compute. repeat split; reflexivity. Qed.

(* why C12_decode_write needs `is_ext_number n = false`: a chain that stops on
   an extension number whose header is absent writes fine but the decoder
   goes on reading *)
Example C12_ex_needs_non_ext :
  let e := mkExts6 None None None (Some (mkFrag 51 0 false 0)) None in
  next_header e 44 = Ok 51 /\ snd (write e 44) = Ok tt /\
  from_slice 44 (fst (write e 44)) <> Ok (e, 51, []).
Proof. vm_compute. repeat split; try reflexivity. discriminate. Qed.

Example C12_ex_v4 :
  let e := mkExts4 (Some (mkAuth 0 1 2 1 [1; 2; 3; 4])) in
  exts4_valid e = true /\ is_ext_number_v4 0 = false /\
  set_next_headers4 e 6 = (mkExts4 (Some (mkAuth 6 1 2 1 [1; 2; 3; 4])), 51) /\
  next_header4 e 51 = Ok 0 /\ next_header4 e 6 = Err (ExtNotReferenced 51) /\
  from_slice4 51 (fst (write4 e 51)) = Ok (e, 0, []).
Proof. vm_compute. repeat split; reflexivity. Qed.

Example C12_ex_ether :
  ip_is_ext (Ipv6 59 ex_all) 17 = false /\
  ip_next_header (fst (ip_set_next_headers (Ipv6 59 ex_all) 17)) = Ok 17 /\
  ip_next_header (Ipv6 59 ex_all) = Err (Ipv6Exts (ExtNotReferenced 0)) /\
  snd (ip_set_next_headers (Ipv6 59 ex_all) 17) = 34525 /\
  snd (ip_set_next_headers (Ipv4 0 0 (mkExts4 None)) 17) = 2048.
Proof. vm_compute. repeat split; reflexivity. Qed.

(* ================================================================== *)
(* extension (round 2): decoding ARBITRARY bytes.
   Reference: ExtChain/WalkSpec.v (slot rule `decide`, framing `frame`, the walk
   `ref_walk`; termination measure = bytes left) and ExtChain/WalkView.v (what
   struct / error record / lax result a walk stands for). *)
From EP Require Import ExtChain.WalkSpec ExtChain.WalkView ExtChain.WalkProofs ExtChain.WriteBack
  ExtChain.DecodeTotal.

(* Ipv6Extensions::from_slice and from_slice_lax, for EVERY byte string and EVERY first number:
   - both are the reference walk read through strict_of_walk / lax_of_walk: Ok or Err, never Panic,
     never OutOfFuel (w_stop <> SFuel; strict_of_walk/lax_of_walk yield Panic/OutOfFuel for no other stop);
     lax = same struct/number/rest as strict on success, otherwise the headers in front of the fault,
     the number and bytes at the fault, and the fault (definition of lax_of_walk);
   - chain_ok: every header is framed by its own length field, goes to the position the slot rule
     `decide` gives for the number announced by its predecessor, and the walk stops exactly on a
     non-extension number, on an extension header whose position is filled (DRefilled), on
     hop-by-hop options not at the start (error) or on a framing fault (error);
   - the input is consumed ++ rest; the returned number is the first byte of the last header (or `first`);
   - slot-wise, the struct holds the decode (bytes at the RFC offsets) of the bytes of each position and
     nothing else; it satisfies the type invariant;
   - both termination measures: at most 6 headers (free positions, the model's fuel) and at least 8
     bytes per header (bytes left, the reference walker's fuel). *)
Theorem C12_from_slice_total : forall first bs, bytes_ok bs ->
  let w := ref_walk first bs in
  from_slice first bs = strict_of_walk w /\
  from_slice_lax first bs = lax_of_walk w /\
  w_stop w <> SFuel /\
  chain_ok true [] first bs (w_chain w) (w_next w) (w_rest w) (w_stop w) /\
  bs = consumed w ++ w_rest w /\
  last_next first (w_chain w) = Some (w_next w) /\
  slotwise (struct_of_chain (w_chain w)) (w_chain w) /\
  exts6_valid (struct_of_chain (w_chain w)) = true /\
  len (w_chain w) <= 6 /\ 8 * len (w_chain w) <= len (consumed w).
Proof. exact from_slice_total. Qed.
Print Assumptions C12_from_slice_total.

(* the same without the reference: no Panic / OutOfFuel; lax agrees with strict on success and
   carries strict's error otherwise *)
Theorem C12_from_slice_lax_total : forall first bs, bytes_ok bs ->
  match from_slice first bs with
  | Ok (e, n, rest) => from_slice_lax first bs = Ok (e, n, rest, None)
  | Err x => exists e n rest l, from_slice_lax first bs = Ok (e, n, rest, Some (x, l))
  | Panic | OutOfFuel => False
  end.
Proof. exact from_slice_never_panics. Qed.
Print Assumptions C12_from_slice_lax_total.

(* the slot rule the decoders implement, case by case (n: announced number, seen: positions filled) *)
Theorem C12_slot_rule : forall seen n,
  (decide false seen n = DNonExt <-> is_ext_number n = false) /\
  (decide false seen n = DHopNotAtStart <-> n = 0 /\ false = false) /\
  (decide false seen n = DRefilled ->
     (n = 60 /\ (has KRouting seen = true /\ has KFinalDestOpts seen = true
                 \/ has KRouting seen = false /\ has KDestOpts seen = true)) \/
     (n = 43 /\ has KRouting seen = true) \/ (n = 44 /\ has KFragment seen = true) \/
     (n = 51 /\ has KAuth seen = true)) /\
  (forall k, decide false seen n = DTake k ->
     (k = KDestOpts /\ n = 60 /\ has KRouting seen = false /\ has KDestOpts seen = false) \/
     (k = KFinalDestOpts /\ n = 60 /\ has KRouting seen = true /\ has KFinalDestOpts seen = false) \/
     (k = KRouting /\ n = 43 /\ has KRouting seen = false) \/
     (k = KFragment /\ n = 44 /\ has KFragment seen = false) \/
     (k = KAuth /\ n = 51 /\ has KAuth seen = false)).
Proof.
  exact (fun seen n => conj (decide_nonext false seen n) (conj (decide_hop false seen n)
           (conj (decide_refilled false seen n) (fun k => decide_take_loop seen n k)))).
Qed.
Print Assumptions C12_slot_rule.

(* decode then write: on every accepted byte string (also when the decoder stopped in front of a
   repeated header) `write` of the decoded struct with the same first number re-emits the consumed
   bytes with the reserved fields cleared (WalkView.normalise: fragment header byte 1 := 0 and
   byte 3 := byte 3 & 0xF9, authentication header bytes 2-3 := 0; everything else verbatim), and
   `next_header` walks to the returned number *)
Theorem C12_decode_any_then_write : forall first bs e n rest, bytes_ok bs ->
  from_slice first bs = Ok (e, n, rest) ->
  let w := ref_walk first bs in
  e = struct_of_chain (w_chain w) /\ n = w_next w /\ rest = w_rest w /\
  bs = consumed w ++ rest /\
  write e first = (normalised (w_chain w), Ok tt) /\
  next_header e first = Ok n /\
  len (normalised (w_chain w)) = len (consumed w).
Proof. exact decode_any_then_write. Qed.
Print Assumptions C12_decode_any_then_write.

(* Ipv4Extensions *)
Theorem C12_v4_from_slice_total : forall first bs, bytes_ok bs ->
  let w := ref_walk4 first bs in
  from_slice4 first bs = strict4_of_walk w /\
  from_slice_lax4 first bs = lax4_of_walk w /\
  w_stop w <> SFuel /\
  bs = consumed w ++ w_rest w /\
  last_next first (w_chain w) = Some (w_next w) /\
  exts4_valid (struct4_of_chain (w_chain w)) = true.
Proof. exact from_slice4_total. Qed.
Print Assumptions C12_v4_from_slice_total.

Theorem C12_v4_decode_any_then_write : forall first bs e n rest, bytes_ok bs ->
  from_slice4 first bs = Ok (e, n, rest) ->
  let w := ref_walk4 first bs in
  e = struct4_of_chain (w_chain w) /\ n = w_next w /\ rest = w_rest w /\
  bs = consumed w ++ rest /\
  write4 e first = (normalised (w_chain w), Ok tt) /\
  next_header4 e first = Ok n.
Proof. exact decode_any_then_write4. Qed.
Print Assumptions C12_v4_decode_any_then_write.

(* non-vacuity: hop-by-hop, destination options, routing (16 bytes), final destination options, fragment
   header with reserved byte 0xAA and reserved bits set (0x37), authentication header with reserved
   bytes 0xBB 0xCC, then a SECOND routing header: the decoder stops in front of it (SRefilled) *)
Definition ex_wire : bytes :=
  [60;0;1;2;3;4;5;6] ++ [43;0;7;7;7;7;7;7] ++ [60;1;9;9;9;9;9;9;9;9;9;9;9;9;9;9] ++ [44;0;8;8;8;8;8;8]
  ++ [51;170;18;55;1;2;3;4] ++ [43;1;187;204;0;0;0;5;0;0;0;6] ++ [17;0;1;1;1;1;1;1] ++ [255;254].

Example C12_ex_walk :
  bytes_ok ex_wire /\
  let w := ref_walk 0 ex_wire in
  map fst (w_chain w) = [KHopByHop; KDestOpts; KRouting; KFinalDestOpts; KFragment; KAuth] /\
  w_stop w = SRefilled /\ w_next w = 43 /\ len (w_rest w) = 10 /\ len (consumed w) = 60 /\
  (let e := struct_of_chain (w_chain w) in
     from_slice 0 ex_wire = Ok (e, 43, w_rest w) /\ from_slice_lax 0 ex_wire = Ok (e, 43, w_rest w, None) /\
     fragment e = Some (mkFrag 51 582 true 16909060) /\
     write e 0 = (normalised (w_chain w), Ok tt) /\ next_header e 0 = Ok 43) /\
  normalised (w_chain w) <> consumed w /\
  drop 32 (take 52 (normalised (w_chain w))) = [44;0;8;8;8;8;8;8] ++ [51;0;18;49;1;2;3;4] ++ [43;1;0;0].
Proof.
  split; [apply bytes_okb_spec; vm_compute; reflexivity|].
  vm_compute. repeat split; try reflexivity; discriminate.
Qed.

(* faults: a destination options header cut one byte short; hop-by-hop options behind a fragment header;
   AH with payload length 0.  The lax decoder keeps the headers in front of the fault. *)
Example C12_ex_faults :
  from_slice 60 ([44;1;0;0;0;0;0;0] ++ [0;0;0;0;0;0;0]) = Err (HLen (mkLenError 16 15 LIpv6ExtHeader 0)) /\
  from_slice 44 ([60;0;0;1;0;0;0;9] ++ [17;2;0;0;0;0;0;0;0;0])
    = Err (HLen (mkLenError 24 10 LIpv6ExtHeader 8)) /\
  from_slice_lax 44 ([60;0;0;1;0;0;0;9] ++ [17;2;0;0;0;0;0;0;0;0])
    = Ok (mkExts6 None None None (Some (mkFrag 60 0 true 9)) None, 60, [17;2;0;0;0;0;0;0;0;0],
          Some (HLen (mkLenError 24 10 LIpv6ExtHeader 8), LIpv6DestOptionsHeader)) /\
  from_slice 44 ([0;0;0;0;0;0;0;9] ++ [17;0;0;0;0;0;0;0]) = Err HHopByHopNotAtStart /\
  from_slice 51 [17;0;0;0;0;0;0;1;0;0;0;2] = Err HIpAuthZeroPayloadLen /\
  w_stop (ref_walk 44 ([60;0;0;1;0;0;0;9] ++ [17;2;0;0;0;0;0;0;0;0])) = SFault KDestOpts (FLen 24) /\
  from_slice4 51 [6;1;9;9;0;0;0;1;0;0;0;2;77] = Ok (mkExts4 (Some (mkAuth 6 1 2 0 [])), 6, [77]) /\
  write4 (mkExts4 (Some (mkAuth 6 1 2 0 []))) 51 = ([6;1;0;0;0;0;0;1;0;0;0;2], Ok tt).
Proof. vm_compute. repeat split; reflexivity. Qed.

(* ================================================================== *)
(* extension (round 2): the reader-based decoders Ipv6Extensions::{read, read_limited} and
   Ipv4Extensions::{read, read_limited} (ExtChain/ReadModel.v, value-carrying; reader and
   LimitedReader are C16's: IoFault/Spec.v fsource, IoFault/Model.v io_read_exact / limrd).
   Reader state: mk_st d c p m = the bytes d still to come, at most c >= 1 per read call, p bytes
   delivered so far, m = MPlain (read) | MLim r (read_limited); `m_ok d m`: the LimitedReader's
   budget does not exceed the data ("the input holds the chain"); `view d m`: the bytes the decoder
   can see (all of d, or the budget's prefix). *)
From EP Require Import IoFault.Spec IoFault.Model ExtChain.ReadModel ExtChain.ReadView ExtChain.ReadProofs.

(* whenever from_slice accepts the visible bytes, read / read_limited return the same struct and the
   same number, have consumed exactly the bytes from_slice consumed (k = len consumed), and what the
   reader can still deliver is from_slice's rest *)
Theorem C12_read_eq_from_slice : forall d c p m first e n rest, 1 <= c -> bytes_ok d -> m_ok d m ->
  from_slice first (view d m) = Ok (e, n, rest) ->
  exists m' k, view d m = take k (view d m) ++ rest /\ k <= avail d m /\
    read6 (lim_of m) first (mk_st d c p m) = (QOk (e, n), mk_st (drop k d) c (p + k) m') /\
    view (drop k d) m' = rest /\ m_ok (drop k d) m' /\ lim_of m' = lim_of m.
Proof. exact read6_eq_from_slice. Qed.
Print Assumptions C12_read_eq_from_slice.

(* every answer of read / read_limited is the reference walk's over the visible bytes: same stop
   rule, same content errors; a framing fault is UnexpectedEof on a plain reader and the
   LimitedReader's LenError (required: ReadView.lim_required, len = bytes left, layer, offset) otherwise *)
Theorem C12_read_walk : forall d c p m first, 1 <= c -> bytes_ok d -> m_ok d m ->
  fst (read6 (lim_of m) first (mk_st d c p m)) = read_of_walk m (ref_walk first (view d m)).
Proof. exact (fun d c p m first Hc OK Hok => proj1 (read6_walk d c p m first Hc OK Hok)). Qed.
Print Assumptions C12_read_walk.

(* never an impossible index (QBad), a usize underflow in the LimitedReader (QUnderflow) or fuel exhaustion *)
Theorem C12_read_total : forall d c p m first, 1 <= c -> bytes_ok d -> m_ok d m ->
  match fst (read6 (lim_of m) first (mk_st d c p m)) with
  | QOk _ | QIo KEof | QLen _ | QContent CHopNotAtStart | QContent CAuthZeroLen => True
  | _ => False
  end.
Proof. exact read6_regular. Qed.
Print Assumptions C12_read_total.

(* Ipv6Extensions::read(&mut Cursor::new(bs), first) *)
Theorem C12_read_cursor : forall first bs e n rest, bytes_ok bs ->
  from_slice first bs = Ok (e, n, rest) ->
  exists s', read6 false first (mk_rstate (cursor bs) None) = (QOk (e, n), mk_rstate s' None) /\
             src_data s' = rest /\ src_pulled s' + len rest = len bs.
Proof. exact read6_cursor. Qed.
Print Assumptions C12_read_cursor.

Theorem C12_v4_read_eq_from_slice : forall d c p m first e n rest, 1 <= c -> bytes_ok d -> m_ok d m ->
  from_slice4 first (view d m) = Ok (e, n, rest) ->
  exists m' k, view d m = take k (view d m) ++ rest /\ k <= avail d m /\
    read4 (lim_of m) first (mk_st d c p m) = (QOk (e, n), mk_st (drop k d) c (p + k) m') /\
    view (drop k d) m' = rest /\ m_ok (drop k d) m' /\ lim_of m' = lim_of m.
Proof. exact read4_eq_from_slice. Qed.
Print Assumptions C12_v4_read_eq_from_slice.

Theorem C12_v4_read_walk : forall d c p m first, 1 <= c -> bytes_ok d -> m_ok d m ->
  fst (read4 (lim_of m) first (mk_st d c p m)) = read4_of_walk m (ref_walk4 first (view d m)).
Proof. exact (fun d c p m first Hc OK Hok => proj1 (read4_walk d c p m first Hc OK Hok)). Qed.
Print Assumptions C12_v4_read_walk.

(* non-vacuity: ex_wire through a Cursor (chunks of 3 bytes per read call) and through LimitedReaders
   with a budget of exactly the six headers (60: Ok, stops on the number 43 with nothing left), of one
   byte less (59: the authentication header does not fit: LenError required 12, len 11, layer 5 = IpAuthHeader,
   offset 40 + 48) and of 63 (the second routing header is announced but not read: Ok) *)
Example C12_ex_read :
  let e := struct_of_chain (w_chain (ref_walk 0 ex_wire)) in
  m_ok ex_wire (MLim (lr_new 60 LS_IPV6_PAYLOAD 40 L_IPV6H)) /\
  read6 false 0 (mk_st ex_wire 3 0 MPlain) = (QOk (e, 43), mk_st (drop 60 ex_wire) 3 60 MPlain) /\
  fst (read6 true 0 (mk_st ex_wire 3 0 (MLim (lr_new 60 LS_IPV6_PAYLOAD 40 L_IPV6H)))) = QOk (e, 43) /\
  fst (read6 true 0 (mk_st ex_wire 3 0 (MLim (lr_new 63 LS_IPV6_PAYLOAD 40 L_IPV6H)))) = QOk (e, 43) /\
  fst (read6 true 0 (mk_st ex_wire 3 0 (MLim (lr_new 59 LS_IPV6_PAYLOAD 40 L_IPV6H))))
    = QLen (mk_lenerr 12 11 LS_IPV6_PAYLOAD L_AUTH 88) /\
  fst (read6 false 0 (mk_st (take 59 ex_wire) 3 0 MPlain)) = QIo KEof /\
  fst (read6 false 44 (mk_st ([0;0;0;0;0;0;0;9] ++ [17;0;0;0;0;0;0;0]) 1 0 MPlain)) = QContent CHopNotAtStart /\
  fst (read4 false 51 (mk_st [6;1;9;9;0;0;0;1;0;0;0;2;77] 5 0 MPlain)) = QOk (mkExts4 (Some (mkAuth 6 1 2 0 [])), 6).
Proof.
  cbv zeta. split; [vm_compute; split; discriminate|].
  vm_compute. repeat split; reflexivity.
Qed.

(* the value-carrying readers against the read PROGRAMS of C16 (IoFault/Model.v x6_read / x4_read run by
   run_r, the objects of C16's fault theorems and of C06's read = from_slice theorem
   Equiv.ReadChain.read_eq_slice_ipv6_exts): on every reader state whose source delivers at least one
   byte per call -- any data, any LimitedReader state, failing or not -- the program run is the run of
   read6 / read4 with the value erased to the program's summary [next number; mask of filled positions]:
   same reader calls, same final reader state, same verdict *)
From EP Require Import ExtChain.ReadErase.
Theorem C12_read_refines_c16 : forall lim first st, 1 <= src_chunk (rs_src st) ->
  run_r (x6_read lim first) st = (qmap summary6 (fst (read6 lim first st)), snd (read6 lim first st)) /\
  run_r (x4_read lim first) st = (qmap summary4 (fst (read4 lim first st)), snd (read4 lim first st)).
Proof. exact (fun lim first st H => conj (read6_erase lim first st H) (read4_erase lim first st H)). Qed.
Print Assumptions C12_read_refines_c16.

Example C12_ex_erase :
  run_r (x6_read true 0) (mk_st ex_wire 3 0 (MLim (lr_new 60 LS_IPV6_PAYLOAD 40 L_IPV6H)))
  = (QOk [43; 63], snd (read6 true 0 (mk_st ex_wire 3 0 (MLim (lr_new 60 LS_IPV6_PAYLOAD 40 L_IPV6H))))).
Proof. vm_compute. reflexivity. Qed.

(* ================================================================== *)
(* audit follow-up (round 1 audit): WHEN does the walk succeed, WHAT does an error mean.
   Reference: ExtChain/ChainSpec.v, written from RFC 8200 4 / 4.1 without any function of the model:
     slot_order ks      every header may follow the ones in front of it (may_follow): hop-by-hop options only
                        directly behind the IPv6 header, the first destination options position never behind
                        the routing header, the second one only behind it; nothing else is constrained
                        (the order routing/fragment/auth is only "recommended" by the RFC and NOT enforced
                        by the crate, see C12_ex_chain4_permuted)
     referenced get first chain next
                        chain = headers of the set `get`, none twice, slot_order, Spec.linked first chain next
     can_extend / maximal   `next` announces a header of the set that is not yet in the chain and may follow it
     unreferenced       the headers of the set the chain does not mention, in RFC 8200 order
     complete_chain     Permutation chain (in_rfc_order get) /\ slot_order /\ linked first chain n:
                        EVERY header of the set exactly once
     verdict            VOk next | VHopByHopNotAtStart | VNotReferenced (number of the first unreferenced header)
   ExtChain/ChainView.v: res_of_verdict / unit_of_verdict (the verdict as Result of next_header / write),
   wire_bytes e ks (Spec wire formats of the headers at positions ks, in that order), error_of, decode_end. *)
From Coq Require Import Permutation.
From EP Require Import ExtChain.ChainSpec ExtChain.ChainView ExtChain.Soundness ExtChain.DecodeWriteAny.

(* the master statement, for EVERY struct and first number (no validity hypothesis for the walk): there is a
   chain from `first` through headers of e that cannot be continued; next_header returns its verdict; write
   (under the type invariant) emits exactly the headers of that chain, in chain order, in their RFC wire
   formats, and returns the same verdict -- also on the error path *)
Theorem C12_walk_exact : forall e first, exists chain next,
  referenced (get_nh e) first chain next /\ maximal (get_nh e) chain next /\
  next_header e first = res_of_verdict (verdict (get_nh e) chain next) /\
  (exts6_valid e = true ->
   write e first = (wire_bytes e (map fst chain), unit_of_verdict (verdict (get_nh e) chain next))).
Proof. exact walk_exact. Qed.
Print Assumptions C12_walk_exact.

(* ... and that chain is unique (for any header set): "the" maximal chain *)
Theorem C12_chain_unique : forall get first c1 n1 c2 n2,
  referenced get first c1 n1 -> maximal get c1 n1 ->
  referenced get first c2 n2 -> maximal get c2 n2 -> c1 = c2 /\ n1 = n2.
Proof. exact maximal_unique. Qed.
Print Assumptions C12_chain_unique.

(* soundness AND completeness of success: next_header is Ok n exactly when the headers of e can be
   arranged into a linked chain first ... n that obeys the slot discipline and contains EVERY header
   of e exactly once (nothing dropped, nothing twice) *)
Theorem C12_walk_ok_iff_chain : forall e first n,
  next_header e first = Ok n <->
  exists chain, Permutation chain (in_rfc_order (get_nh e)) /\ slot_order (map fst chain) /\ linked first chain n.
Proof. exact walk_ok_iff_chain. Qed.
Print Assumptions C12_walk_ok_iff_chain.

(* the same for write, with the bytes: they are the headers of that chain, in chain order *)
Theorem C12_write_ok_iff_chain : forall e first bs, exts6_valid e = true ->
  (write e first = (bs, Ok tt) <->
   exists chain n, (Permutation chain (in_rfc_order (get_nh e)) /\ slot_order (map fst chain) /\ linked first chain n) /\
                   next_header e first = Ok n /\ bs = wire_bytes e (map fst chain)).
Proof. exact write_ok_iff_chain. Qed.
Print Assumptions C12_write_ok_iff_chain.

(* exact characterisation of the errors: Err x exactly when the maximal chain leaves headers out; x names the
   FIRST header in RFC 8200 order that is left out (ExtNotReferenced), except that a chain stopping on
   0 in front of a left-out hop-by-hop header is HopByHopNotAtStart *)
Theorem C12_walk_err_iff_chain : forall e first x,
  next_header e first = Err x <->
  exists chain next k rest,
    referenced (get_nh e) first chain next /\ maximal (get_nh e) chain next /\
    unreferenced (get_nh e) chain = k :: rest /\ x = error_of next k.
Proof. exact walk_err_iff_chain. Qed.
Print Assumptions C12_walk_err_iff_chain.

(* the header an error names is in the struct and NO chain from `first` (maximal or not) leads to it:
   it really is unreferenced or misplaced; for HopByHopNotAtStart some non-empty chain leads to the number 0 *)
Theorem C12_walk_err_unreferenced : forall e first x, next_header e first = Err x ->
  match x with
  | ExtNotReferenced m =>
    exists k, ip_number_of k = m /\ is_some (get_nh e k) = true /\
              forall chain next, referenced (get_nh e) first chain next -> ~ In k (map fst chain)
  | HopByHopNotAtStart =>
    is_some (get_nh e KHopByHop) = true /\
    (forall chain next, referenced (get_nh e) first chain next -> ~ In KHopByHop (map fst chain)) /\
    exists chain, chain <> [] /\ referenced (get_nh e) first chain (ip_number_of KHopByHop)
  end.
Proof. exact walk_err_unreferenced. Qed.
Print Assumptions C12_walk_err_unreferenced.

(* a chain linked in the RFC 8200 order is accepted (the converse is false: C12_ex_chain4_permuted) *)
Theorem C12_rfc_order_walks : forall e first n,
  linked first (in_rfc_order (get_nh e)) n -> next_header e first = Ok n.
Proof. exact rfc_order_walks. Qed.
Print Assumptions C12_rfc_order_walks.

(* Ipv4Extensions: the same statements (the set has at most the authentication header) *)
Theorem C12_v4_walk_exact : forall e first, exists chain next,
  referenced (get_nh4 e) first chain next /\ maximal (get_nh4 e) chain next /\
  next_header4 e first = res_of_verdict (verdict (get_nh4 e) chain next) /\
  (exts4_valid e = true ->
   write4 e first = (wire_bytes4 e (map fst chain), unit_of_verdict (verdict (get_nh4 e) chain next))).
Proof. exact walk4_exact. Qed.
Print Assumptions C12_v4_walk_exact.

Theorem C12_v4_walk_ok_iff_chain : forall e first n,
  next_header4 e first = Ok n <->
  exists chain, Permutation chain (in_rfc_order (get_nh4 e)) /\ slot_order (map fst chain) /\ linked first chain n.
Proof. exact walk4_ok_iff_chain. Qed.
Print Assumptions C12_v4_walk_ok_iff_chain.

Theorem C12_v4_write_ok_iff_chain : forall e first bs, exts4_valid e = true ->
  (write4 e first = (bs, Ok tt) <->
   exists chain n, (Permutation chain (in_rfc_order (get_nh4 e)) /\ slot_order (map fst chain) /\ linked first chain n) /\
                   next_header4 e first = Ok n /\ bs = wire_bytes4 e (map fst chain)).
Proof. exact write4_ok_iff_chain. Qed.
Print Assumptions C12_v4_write_ok_iff_chain.

Theorem C12_v4_walk_err_iff : forall e first x,
  next_header4 e first = Err x <->
  x = ExtNotReferenced (ip_number_of KAuth) /\ is_some (auth4 e) = true /\ first <> ip_number_of KAuth.
Proof. exact walk4_err_iff. Qed.
Print Assumptions C12_v4_walk_err_iff.

(* decode o write for EVERY final number (C12_decode_write is the case DNonExt): the decoder re-reads every
   header of e and then treats n by the slot rule with every position of e filled (ChainView.decode_end):
   Ok (e, n, []) for a non-extension number or a number whose position is filled; HopByHopNotAtStart for 0;
   otherwise it looks for the announced header behind the written bytes: LenError{required 8 (12 for the
   authentication header), len 0, layer of that header, offset = len bs} *)
Theorem C12_decode_write_any : forall e first bs n, exts6_valid e = true ->
  write e first = (bs, Ok tt) -> next_header e first = Ok n ->
  from_slice first bs =
  match decide (is_nil (present_kinds e)) (present_kinds e) n with
  | DNonExt | DRefilled => Ok (e, n, [])
  | DHopNotAtStart => Err HHopByHopNotAtStart
  | DTake k => Err (fault_error (len bs) 0 k (FLen (min_header_len k)))
  end.
Proof. exact decode_write_any. Qed.
Print Assumptions C12_decode_write_any.

(* ... so the round trip holds EXACTLY for those two classes of n *)
Theorem C12_decode_write_iff : forall e first bs n, exts6_valid e = true ->
  write e first = (bs, Ok tt) -> next_header e first = Ok n ->
  (from_slice first bs = Ok (e, n, []) <->
   is_ext_number n = false \/ decide false (present_kinds e) n = DRefilled).
Proof. exact decode_write_iff. Qed.
Print Assumptions C12_decode_write_iff.

Theorem C12_v4_decode_write_any : forall e first bs n, exts4_valid e = true ->
  write4 e first = (bs, Ok tt) -> next_header4 e first = Ok n ->
  from_slice4 first bs =
  if is_some (auth4 e) || negb (n =? ip_number_of KAuth) then Ok (e, n, [])
  else Err (ALen (mkLenError 12 0 LIpAuthHeader 0)).
Proof. exact decode_write4_any. Qed.
Print Assumptions C12_v4_decode_write_any.

(* the slot rule `decide` as equivalences, for both values of start (completes C12_slot_rule) *)
Theorem C12_slot_rule_full : forall start seen n,
  (decide start seen n = DNonExt <-> is_ext_number n = false) /\
  (decide start seen n = DHopNotAtStart <-> n = 0 /\ start = false) /\
  (decide start seen n = DRefilled <->
     (n = 60 /\ (has KRouting seen = true /\ has KFinalDestOpts seen = true
                 \/ has KRouting seen = false /\ has KDestOpts seen = true)) \/
     (n = 43 /\ has KRouting seen = true) \/ (n = 44 /\ has KFragment seen = true) \/
     (n = 51 /\ has KAuth seen = true)) /\
  (forall k, decide start seen n = DTake k <->
     (k = KHopByHop /\ n = 0 /\ start = true) \/
     (k = KDestOpts /\ n = 60 /\ has KRouting seen = false /\ has KDestOpts seen = false) \/
     (k = KFinalDestOpts /\ n = 60 /\ has KRouting seen = true /\ has KFinalDestOpts seen = false) \/
     (k = KRouting /\ n = 43 /\ has KRouting seen = false) \/
     (k = KFragment /\ n = 44 /\ has KFragment seen = false) \/
     (k = KAuth /\ n = 51 /\ has KAuth seen = false)).
Proof. exact slot_rule_full. Qed.
Print Assumptions C12_slot_rule_full.

(* ------------------------------------------------------------------ *)
(* non-vacuity *)

(* a 4-header chain in RFC order: hop-by-hop -> destination options -> routing -> fragment -> TCP *)
Definition ex_chain4 : Exts6 :=
  mkExts6 (Some (ex_raw 60 0 1)) (Some (ex_raw 43 1 2)) (Some (mkRouting (ex_raw 44 0 3) None))
          (Some (mkFrag 6 185 true 7)) None.

Example C12_ex_chain4 :
  let chain := [(KHopByHop, 60); (KDestOpts, 43); (KRouting, 44); (KFragment, 6)] in
  exts6_valid ex_chain4 = true /\
  (Permutation chain (in_rfc_order (get_nh ex_chain4)) /\ slot_order (map fst chain) /\ linked 0 chain 6) /\
  next_header ex_chain4 0 = Ok 6 /\
  write ex_chain4 0 = (wire_bytes ex_chain4 [KHopByHop; KDestOpts; KRouting; KFragment], Ok tt) /\
  len (wire_bytes ex_chain4 [KHopByHop; KDestOpts; KRouting; KFragment]) = 40.
Proof.
  cbv zeta. split; [vm_compute; reflexivity|]. split.
  - split; [apply Permutation_refl|]. split; [apply slot_orderb_sound; reflexivity|].
    cbn. repeat split; reflexivity.
  - vm_compute. repeat split; reflexivity.
Qed.

(* ex_perm (above): 4 headers linked auth -> routing -> final destination options -> fragment -> TCP.
   Every header once, slot discipline obeyed, NOT the RFC order: accepted.  So the walk does not
   enforce the recommended order of routing/fragment/auth ("RFC 8200 order only" is refuted) *)
Example C12_ex_chain4_permuted :
  let chain := [(KAuth, 43); (KRouting, 60); (KFinalDestOpts, 44); (KFragment, 6)] in
  (Permutation chain (in_rfc_order (get_nh ex_perm)) /\ slot_order (map fst chain) /\ linked 51 chain 6) /\
  next_header ex_perm 51 = Ok 6 /\
  fst (write ex_perm 51) = wire_bytes ex_perm [KAuth; KRouting; KFinalDestOpts; KFragment] /\
  ~ (exists first n, linked first (in_rfc_order (get_nh ex_perm)) n).
Proof.
  cbv zeta. split; [|split; [vm_compute; reflexivity|split; [vm_compute; reflexivity|]]].
  - split.
    + change (in_rfc_order (get_nh ex_perm))
        with ([(KRouting, 60); (KFragment, 6)] ++ (KAuth, 43) :: [(KFinalDestOpts, 44)]).
      apply Permutation_cons_app. cbn [app]. apply perm_skip. apply perm_swap.
    + split; [apply slot_orderb_sound; reflexivity|]. cbn. repeat split; reflexivity.
  - intros (first & n & L). cbn in L. destruct L as (_ & L & _). discriminate L.
Qed.

(* failing chains (4 headers each).
   (a) unreferenced: the destination options point past the routing header (60 -> 44): the maximal chain is
       hop-by-hop, destination options, fragment; the routing header is left out: ExtNotReferenced 43;
       write has emitted the three referenced headers (24 bytes) when it reports the error.
   (b) misplaced: destination options announced BEHIND the routing header (first slot, no second slot
       header): the chain stops at the routing header although 60 is announced and a header with number 60
       is in the struct: ExtNotReferenced 60.
   (c) hop-by-hop options announced by the fragment header: HopByHopNotAtStart *)
Definition ex_unref : Exts6 :=
  mkExts6 (Some (ex_raw 60 0 1)) (Some (ex_raw 44 0 2)) (Some (mkRouting (ex_raw 44 0 3) None))
          (Some (mkFrag 6 0 false 7)) None.
Definition ex_misplaced : Exts6 :=
  mkExts6 None (Some (ex_raw 44 0 2)) (Some (mkRouting (ex_raw 60 0 3) None))
          (Some (mkFrag 51 0 false 7)) (Some (mkAuth 6 1 2 0 [])).
Definition ex_late_hop : Exts6 :=
  mkExts6 (Some (ex_raw 6 0 1)) None (Some (mkRouting (ex_raw 51 0 3) None))
          (Some (mkFrag 0 0 false 7)) (Some (mkAuth 44 1 2 0 [])).

Example C12_ex_chain4_failing :
  (let chain := [(KHopByHop, 60); (KDestOpts, 44); (KFragment, 6)] in
   referenced (get_nh ex_unref) 0 chain 6 /\ maximal (get_nh ex_unref) chain 6 /\
   unreferenced (get_nh ex_unref) chain = [KRouting] /\
   next_header ex_unref 0 = Err (ExtNotReferenced 43) /\
   write ex_unref 0 = (wire_bytes ex_unref [KHopByHop; KDestOpts; KFragment], Err (ExtNotReferenced 43)) /\
   error_of 6 KRouting = ExtNotReferenced 43) /\
  (let chain := [(KRouting, 60)] in
   referenced (get_nh ex_misplaced) 43 chain 60 /\ maximal (get_nh ex_misplaced) chain 60 /\
   unreferenced (get_nh ex_misplaced) chain = [KDestOpts; KFragment; KAuth] /\
   next_header ex_misplaced 43 = Err (ExtNotReferenced 60)) /\
  (let chain := [(KRouting, 51); (KAuth, 44); (KFragment, 0)] in
   referenced (get_nh ex_late_hop) 43 chain 0 /\ maximal (get_nh ex_late_hop) chain 0 /\
   unreferenced (get_nh ex_late_hop) chain = [KHopByHop] /\
   next_header ex_late_hop 43 = Err HopByHopNotAtStart /\ error_of 0 KHopByHop = HopByHopNotAtStart).
Proof.
  assert (R : forall get first chain next,
             forallb (fun p => match get (fst p) with Some a => a =? snd p | None => false end) chain = true ->
             NoDup (map fst chain) -> slot_orderb [] (map fst chain) = true -> linked first chain next ->
             referenced get first chain next).
  { intros get first chain next F N S L. split; [|split; [exact N|split; [now apply slot_orderb_sound|exact L]]].
    apply Forall_forall. intros p I. rewrite forallb_forall in F. specialize (F p I). unfold is_header_of.
    destruct (get (fst p)); [|discriminate]. apply N.eqb_eq in F. now subst. }
  assert (M : forall get chain next,
             (forall k, match get k with
                        | Some _ => (ip_number_of k =? next) && negb (has k (map fst chain))
                                    && may_followb (map fst chain) k
                        | None => false end = false) ->
             maximal get chain next).
  { intros get chain next H k nh (E & G & NI & MF). specialize (H k). rewrite G in H.
    apply N.eqb_eq in E. apply has_not_In in NI. apply may_followb_ok in MF. rewrite E, NI, MF in H. discriminate. }
  cbv zeta. split; [|split].
  - split; [apply R; [reflexivity|repeat constructor; cbn; intuition discriminate|reflexivity|cbn; repeat split; reflexivity]|].
    split; [apply M; intros k; destruct k; reflexivity|]. vm_compute. repeat split; reflexivity.
  - split; [apply R; [reflexivity|repeat constructor; cbn; intuition discriminate|reflexivity|cbn; repeat split; reflexivity]|].
    split; [apply M; intros k; destruct k; reflexivity|]. vm_compute. repeat split; reflexivity.
  - split; [apply R; [reflexivity|repeat constructor; cbn; intuition discriminate|reflexivity|cbn; repeat split; reflexivity]|].
    split; [apply M; intros k; destruct k; reflexivity|]. vm_compute. repeat split; reflexivity.
Qed.

(* Ipv4Extensions: the chain is the authentication header or empty *)
Example C12_ex_v4_chain :
  let e := mkExts4 (Some (mkAuth 6 1 2 1 [1; 2; 3; 4])) in
  (Permutation [(KAuth, 6)] (in_rfc_order (get_nh4 e)) /\ slot_order [KAuth] /\ linked 51 [(KAuth, 6)] 6) /\
  next_header4 e 51 = Ok 6 /\ fst (write4 e 51) = wire_bytes4 e [KAuth] /\
  next_header4 e 17 = Err (ExtNotReferenced 51) /\
  referenced (get_nh4 e) 17 [] 17 /\ unreferenced (get_nh4 e) [] = [KAuth] /\
  next_header4 (mkExts4 None) 51 = Ok 51 /\ write4 (mkExts4 None) 51 = ([], Ok tt) /\
  from_slice4 51 [] = Err (ALen (mkLenError 12 0 LIpAuthHeader 0)).
Proof.
  cbv zeta. split.
  - split; [apply Permutation_refl|]. split; [apply slot_orderb_sound; reflexivity|cbn; auto].
  - split; [reflexivity|]. split; [vm_compute; reflexivity|]. split; [reflexivity|].
    split; [apply referenced_nil|]. vm_compute. repeat split; reflexivity.
Qed.

(* every class of the final number for decode o write: 6 (no extension number) and 44 behind a fragment
   header (position filled: round trip holds although 44 is an extension number); 0 (error); 51 without an
   authentication header (C12_ex_needs_non_ext: LenError required 12, len 0, IpAuthHeader, offset 8 = all bytes) *)
Example C12_ex_decode_classes :
  (let e := mkExts6 None None None (Some (mkFrag 44 0 false 0)) None in
   next_header e 44 = Ok 44 /\ is_ext_number 44 = true /\ decide false (present_kinds e) 44 = DRefilled /\
   from_slice 44 (fst (write e 44)) = Ok (e, 44, [])) /\
  (let e := mkExts6 None None None (Some (mkFrag 51 0 false 0)) None in
   next_header e 44 = Ok 51 /\ decide false (present_kinds e) 51 = DTake KAuth /\
   from_slice 44 (fst (write e 44)) = Err (HLen (mkLenError 12 0 LIpAuthHeader 8))) /\
  (let e := mkExts6 None None None (Some (mkFrag 0 0 false 0)) None in
   next_header e 44 = Ok 0 /\ from_slice 44 (fst (write e 44)) = Err HHopByHopNotAtStart) /\
  (next_header exts6_default 0 = Ok 0 /\ write exts6_default 0 = ([], Ok tt) /\
   decide (is_nil (present_kinds exts6_default)) (present_kinds exts6_default) 0 = DTake KHopByHop /\
   from_slice 0 [] = Err (HLen (mkLenError 8 0 LIpv6ExtHeader 0))).
Proof. vm_compute. repeat split; reflexivity. Qed.

(* ==== round3 smalls begin ==== *)
(* Round 3 (audit clause e): "decoding those bytes yields the same set and final number" through
   EVERY decoder of the written bytes -- so far a theorem for the strict from_slice only, because the
   lax / reader theorems need `bytes_ok` of their input and no C12 theorem said that the WRITTEN
   bytes are bytes.  For every valid header set whose walk ends on a number the round trip can
   hold for (C12_decode_write_iff: no extension number, or the number of a filled position):
   the written bytes are bytes; from_slice, from_slice_lax (no stop error), read over a Cursor
   (everything consumed) and read_limited (LimitedReader with exactly the written length left,
   over a source that goes on with ANY further bytes `tail`, any chunking c and position p: the
   tail is not touched) all return (e, n).
   Lemmas: ExtChain/WrittenDecode.v (compositions; `write6_bytes_ok` of Builder/ProofsCrate.v). *)
From EP Require Import ExtChain.WrittenDecode.

Theorem C12_written_all_decoders : forall e first bs n, exts6_valid e = true ->
  write e first = (bs, Ok tt) -> next_header e first = Ok n ->
  (is_ext_number n = false \/ decide false (present_kinds e) n = DRefilled) ->
  bytes_ok bs /\
  from_slice first bs = Ok (e, n, []) /\
  from_slice_lax first bs = Ok (e, n, [], None) /\
  (exists s', read6 false first (mk_rstate (cursor bs) None) = (QOk (e, n), mk_rstate s' None) /\
              src_data s' = [] /\ src_pulled s' = len bs) /\
  (forall c p r tail, 1 <= c -> bytes_ok tail ->
     lr_read r <= lr_max r -> lr_max r - lr_read r = len bs ->
     exists m', read6 true first (mk_st (bs ++ tail) c p (MLim r))
                  = (QOk (e, n), mk_st tail c (p + len bs) m') /\
                view tail m' = [] /\ lim_of m' = true).
Proof. exact written_decoders6. Qed.
Print Assumptions C12_written_all_decoders.

(* the four decoders agree on ANY byte string the strict decoder consumes completely *)
Theorem C12_decoders_agree : forall first bs e n, bytes_ok bs ->
  from_slice first bs = Ok (e, n, []) -> all_decoders6 first bs e n.
Proof. exact decoders_agree6. Qed.
Print Assumptions C12_decoders_agree.

(* Ipv4Extensions: the round trip fails only for the empty set with first = 51 (C12_v4_decode_write_any) *)
Theorem C12_v4_written_all_decoders : forall e first bs n, exts4_valid e = true ->
  write4 e first = (bs, Ok tt) -> next_header4 e first = Ok n ->
  (is_some (auth4 e) || negb (n =? ip_number_of KAuth))%bool = true ->
  bytes_ok bs /\
  from_slice4 first bs = Ok (e, n, []) /\
  from_slice_lax4 first bs = Ok (e, n, [], None) /\
  (exists s', read4 false first (mk_rstate (cursor bs) None) = (QOk (e, n), mk_rstate s' None) /\
              src_data s' = [] /\ src_pulled s' = len bs) /\
  (forall c p r tail, 1 <= c -> bytes_ok tail ->
     lr_read r <= lr_max r -> lr_max r - lr_read r = len bs ->
     exists m', read4 true first (mk_st (bs ++ tail) c p (MLim r))
                  = (QOk (e, n), mk_st tail c (p + len bs) m') /\
                view tail m' = [] /\ lim_of m' = true).
Proof. exact written_decoders4. Qed.
Print Assumptions C12_v4_written_all_decoders.

Check (eq_refl : all_decoders6 = fun first bs e n =>
  bytes_ok bs /\
  from_slice first bs = Ok (e, n, []) /\
  from_slice_lax first bs = Ok (e, n, [], None) /\
  (exists s', read6 false first (mk_rstate (cursor bs) None) = (QOk (e, n), mk_rstate s' None) /\
              src_data s' = [] /\ src_pulled s' = len bs) /\
  (forall c p r tail, 1 <= c -> bytes_ok tail ->
     lr_read r <= lr_max r -> lr_max r - lr_read r = len bs ->
     exists m', read6 true first (mk_st (bs ++ tail) c p (MLim r))
                  = (QOk (e, n), mk_st tail c (p + len bs) m') /\
                view tail m' = [] /\ lim_of m' = true)).

(* non-vacuity: both classes of the final number (ex_perm: 6, no extension number; a fragment header
   announcing 44: filled position), a LimitedReader with exactly the written length over a longer
   source with chunks of 3 bytes; IPv4 authentication header *)
Example C12_ex_written_all_decoders :
  (exts6_valid ex_perm = true /\ snd (write ex_perm 51) = Ok tt /\ next_header ex_perm 51 = Ok 6 /\
   is_ext_number 6 = false /\
   from_slice_lax 51 (fst (write ex_perm 51)) = Ok (ex_perm, 6, [], None) /\
   fst (read6 false 51 (mk_rstate (cursor (fst (write ex_perm 51))) None)) = QOk (ex_perm, 6)) /\
  (let e := mkExts6 None None None (Some (mkFrag 44 0 false 0)) None in
   exts6_valid e = true /\ write e 44 = ([44; 0; 0; 0; 0; 0; 0; 0], Ok tt) /\ next_header e 44 = Ok 44 /\
   decide false (present_kinds e) 44 = DRefilled /\
   from_slice_lax 44 [44; 0; 0; 0; 0; 0; 0; 0] = Ok (e, 44, [], None) /\
   read6 true 44 (mk_st ([44; 0; 0; 0; 0; 0; 0; 0] ++ [1; 2; 3]) 3 7 (MLim (lr_new 8 LS_IPV6_PAYLOAD 40 L_IPV6H)))
     = (QOk (e, 44), mk_st [1; 2; 3] 3 15 (MLim (mk_limrd 8 LS_IPV6_PAYLOAD L_IPV6FRAG 40 8)))) /\
  (let e := mkExts4 (Some (mkAuth 6 1 2 1 [1; 2; 3; 4])) in
   exts4_valid e = true /\ write4 e 51 = ([6; 2; 0; 0; 0; 0; 0; 1; 0; 0; 0; 2; 1; 2; 3; 4], Ok tt) /\
   next_header4 e 51 = Ok 6 /\
   from_slice_lax4 51 [6; 2; 0; 0; 0; 0; 0; 1; 0; 0; 0; 2; 1; 2; 3; 4] = Ok (e, 6, [], None) /\
   fst (read4 true 51 (mk_st ([6; 2; 0; 0; 0; 0; 0; 1; 0; 0; 0; 2; 1; 2; 3; 4] ++ [9; 9]) 5 0
                          (MLim (lr_new 16 LS_IPV6_PAYLOAD 20 L_IPV6H)))) = QOk (e, 6)).
Proof. vm_compute. repeat split; reflexivity. Qed.
(* ==== round3 smalls end ==== *)
