#!/bin/sh
# Build the framework from files on disk only (offline): Coq development (full
# .vo build), extracted OCaml runners, Rust harness (debug + release).
set -e
cd "$(dirname "$0")"
export CARGO_NET_OFFLINE=true
python3 tools/setup_all.py
